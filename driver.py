#!/usr/bin/env python3
"""./check <property> quick|thorough   |   ./check <property> --replay <file>

Driver of the deterministic simulation: rebuilds the simulator binaries from /repo's current working
tree, runs seeded sweeps in long-lived worker processes, gates determinism, gates / minimises /
replays violations and writes /verif/evidence/<id>.json.

exit 0  property held on everything explored (KNOWN-FINDING lines possible)
exit 1  VIOLATION property=<id> replay=<path>
exit 2  HARNESS-ERROR (never on the unchanged tree): build failure, unsupported OpenMP construct,
        nondeterminism, a violation that does not replay
"""
import json, os, queue, subprocess, sys, threading, time, copy, hashlib, shutil

VERIF = os.path.dirname(os.path.abspath(__file__))
sys.path.insert(0, VERIF)
import build as B

EVID = os.path.join(VERIF, "evidence")
REPLAYS = os.path.join(VERIF, "replays")
KNOWN = os.environ.get("VERIF_KNOWN_FINDINGS", os.path.join(VERIF, "known_findings.json"))  # the override exists only to test the mechanism
NPROC = min(16, os.cpu_count() or 4)

# which build flavours decide which property; "profile" = workload generator profile
PROPS = {
    "C03": dict(flavours=["tsh-avx2", "tsh-avx512"], title="NTT computes the DFT for every size and configuration"),
    "C04": dict(flavours=["tsh-avx2", "tsh-avx512"], title="INTT is the exact inverse transform"),
    "C05": dict(flavours=["tsh-avx2", "tsh-avx512"], title="extendPol is the low-degree extension"),
    "C08": dict(flavours=["tsh-avx2", "tsh-avx512"], title="Merkle tree buffer and root"),
    "C12": dict(flavours=["tsh-avx2", "tsh-avx512"], title="race freedom, schedule and team independence"),
    "C17": dict(flavours=["tsh-avx2", "tsh-avx512"], title="(partial) parallel copy / zero helpers"),
    "C18": dict(flavours=["asan-avx2", "asan-avx512", "tsh-avx2"], title="(partial) memory safety / UB on the simulated surfaces"),
    "C19": dict(flavours=["tsh-avx2", "tsh-avx512"], title="transform objects are reusable"),
}
# runs per flavour; sizes; determinism-gate sample; wall-clock cap of the sweeps (s)
TIERS = {
    "quick": dict(runs=dict(C03=40000, C04=40000, C05=30000, C08=12000, C12=30000, C17=60000, C18=12000, C19=20000), maxlog=9, maxlog_tree=6, max_copy=20000, gate=200, cap_s=150, cold=320),
    "thorough": dict(runs=dict(C03=200000, C04=160000, C05=120000, C08=80000, C12=160000, C17=400000, C18=60000, C19=100000), maxlog=12, maxlog_tree=8, max_copy=70000, gate=3000, cap_s=1500, cold=3200),
}
HANG_S = 120  # seconds of wall clock without a line from a worker before it counts as hung
MAX_FAILING_RUNS = 400  # a sweep stops once this many of its runs failed
MAX_EVENTS = 60  # violating runs per flavour that are classified (replayed) individually
MAX_MINIMISE = 3  # distinct violation signatures that are minimised and written as replay files


def log(*a):
    print(*a, flush=True)


def harness_error(msg):
    log("HARNESS-ERROR " + msg)
    sys.exit(2)


# ------------------------------------------------------------------------------------------------
# worker pool
# ------------------------------------------------------------------------------------------------
class Sweep:
    """Runs indices [0, n) of profile/base on `w` long-lived worker processes of one binary."""

    def __init__(self, binary, flavour, profile, base, n, w, lim, deadline, samples=False, indices_from=0):
        self.binary, self.flavour, self.profile, self.base, self.n, self.w, self.lim = binary, flavour, profile, base, n, w, lim
        self.deadline = deadline
        self.samples = samples
        self.results = {}  # index -> result dict
        self.crashes = []  # (index, seed, sig)
        self.fatals = []  # (index, seed, what)
        self.sanitizer = []  # (index, seed, text)
        self.restarts = 0
        self.timed_out = False
        self.first = indices_from
        self.prefix = []  # e.g. valgrind
        self.bulk = False  # bulk cross-backend sweep (plain flavours)
        self.cold = False  # one run per fresh process, simulated execution before the reference run
        self.nviol = 0  # runs with a violation in their result line
        self.heap_restarts = 0
        self.hangs = []  # (index, seed): a worker printed nothing for HANG_S seconds of wall clock and was killed
        self.wstate = {}
        self.stopped_early = False
        self.lock = threading.Lock()

    def cmd(self, start):
        c = list(self.prefix) + [self.binary, "--worker", "--profile", self.profile, "--seed", str(self.base), "--start", str(start), "--stride", str(self.w), "--end", str(start + 1 if self.cold else self.n),
             "--maxlog", str(self.lim["maxlog"]), "--maxlog-tree", str(self.lim["maxlog_tree"]), "--max-copy", str(self.lim["max_copy"])]
        if "avx512" in self.flavour:
            c.append("--avx512")
        if self.samples:
            c.append("--samples")
        if self.cold:
            c.append("--cold")
        if self.lim.get("huge") and not self.cold and not self.prefix:
            c.append("--huge")
        return c

    def failures(self):
        return len(self.crashes) + len(self.sanitizer) + len(self.fatals) + self.nviol

    def worker(self, wid):
        start = self.first + wid
        while start < self.n:
            if time.time() > self.deadline:
                self.timed_out = True
                return
            if self.failures() >= MAX_FAILING_RUNS:
                # the tree is broken: more failing runs add nothing, and every crash costs a process restart
                self.stopped_early = True
                return
            p = subprocess.Popen(self.cmd(start), stdout=subprocess.PIPE, stderr=subprocess.PIPE, text=True, bufsize=1)
            st = dict(p=p, last=time.time(), hung=False)
            self.wstate[wid] = st
            cur = None
            done = False
            heap_full = False
            errbuf = []
            et = threading.Thread(target=lambda: errbuf.extend(p.stderr.readlines()), daemon=True)
            et.start()
            killer = threading.Timer(max(1.0, self.deadline - time.time()), p.kill)
            killer.start()
            try:
                for line in p.stdout:
                    st["last"] = time.time()
                    if not line or len(line) < 2:
                        continue
                    tag = line[0]
                    if tag == "S":
                        _, i, s = line.split()
                        cur = (int(i), int(s))
                    elif tag == "R":
                        sp = line.find(" ", 2)
                        i = int(line[2:sp])
                        try:
                            r = json.loads(line[sp + 1:])
                        except Exception:
                            continue
                        with self.lock:
                            self.results[i] = r
                            if not r.get("ok", True):
                                self.nviol += 1
                        if self.nviol >= MAX_FAILING_RUNS and not self.cold:
                            self.stopped_early = True
                            p.kill()
                            break
                    elif tag == "X":
                        parts = line.split()
                        with self.lock:
                            self.crashes.append((int(parts[1]), int(parts[2]), int(parts[3].split("=")[1])))
                    elif tag == "F":
                        parts = line.split(None, 3)
                        if "simulated-heap-exhausted" in parts[3]:
                            # the code under test keeps (or leaks) heap blocks across runs until the 16 GiB arena is full:
                            # not a finding of any listed property; a fresh worker starts with an empty arena
                            self.heap_restarts += 1
                            heap_full = True
                        else:
                            with self.lock:
                                self.fatals.append((int(parts[1]), int(parts[2]), parts[3].strip()))
                    elif tag == "D":
                        done = True
            finally:
                killer.cancel()
            rc = p.wait()
            et.join(timeout=2)
            if heap_full and cur is not None:
                start = cur[0]  # the same run again, in a fresh process
                self.restarts += 1
                continue
            if st["hung"]:
                if cur is not None:
                    with self.lock:
                        self.hangs.append(cur)
                    start = cur[0] + self.w
                    continue
                return
            if self.stopped_early:
                return
            if done and self.cold:
                start += self.w
                continue
            if done:
                return
            if time.time() > self.deadline:
                self.timed_out = True
                return
            # the worker died inside run `cur`
            if cur is None:
                harness_error("worker of %s died before its first run (rc=%s): %s" % (self.flavour, rc, "".join(errbuf)[-800:]))
            if rc == 77 or "Sanitizer" in "".join(errbuf) or (self.prefix and "==" in "".join(errbuf)):
                with self.lock:
                    self.sanitizer.append((cur[0], cur[1], "".join(errbuf)[-3000:]))
            elif not any(c[0] == cur[0] for c in self.crashes) and not any(f[0] == cur[0] for f in self.fatals):
                with self.lock:
                    self.crashes.append((cur[0], cur[1], -rc if rc < 0 else rc))
            self.restarts += 1
            start = cur[0] + self.w

    def watchdog(self, stop):
        # wall-clock watchdog: only unsticks a worker that is blocked in the OS or spins in uninstrumented code
        # (the logical step budget cannot see those); it never produces a VIOLATION, the check ends with exit 2
        limit = HANG_S * (6 if self.prefix else 1)
        while not stop.wait(1.0):
            now = time.time()
            for st in list(self.wstate.values()):
                if not st["hung"] and st["p"].poll() is None and now - st["last"] > limit:
                    st["hung"] = True
                    st["p"].kill()

    def run(self):
        ts = [threading.Thread(target=self.worker, args=(i,)) for i in range(self.w)]
        t0 = time.time()
        stop = threading.Event()
        wd = threading.Thread(target=self.watchdog, args=(stop,), daemon=True)
        wd.start()
        for t in ts:
            t.start()
        for t in ts:
            t.join()
        stop.set()
        self.wall = time.time() - t0
        return self


def run_replay(binary, plan, record=False, timeout=120):
    """Executes one plan in a fresh process. Returns dict(outcome=..., result=..., crash_sig, last_op, text)."""
    tmpdir = os.path.join(VERIF, "build", "tmp")
    os.makedirs(tmpdir, exist_ok=True)
    path = os.path.join(tmpdir, "cand-%d-%d.json" % (os.getpid(), threading.get_ident()))
    with open(path, "w") as f:
        json.dump(plan, f)
    try:
        return run_replay_file(binary, path, record, timeout)
    finally:
        try:
            os.unlink(path)
        except OSError:
            pass


REPLAY_PREFIX = {}  # binary -> command prefix (valgrind for the plain flavour)


def run_replay_file(binary, path, record=False, timeout=300):
    cmd = REPLAY_PREFIX.get(binary, []) + [binary, "--replay", path] + (["--record"] if record else [])
    try:
        p = subprocess.run(cmd, stdout=subprocess.PIPE, stderr=subprocess.PIPE, text=True, timeout=timeout)
    except subprocess.TimeoutExpired:
        return dict(outcome="timeout", result=None, last_op=None, text="")
    out = dict(outcome="ok", result=None, crash_sig=None, last_op=None, text=(p.stderr if len(p.stderr) < 4000 else p.stderr[:2000] + "\n...\n" + p.stderr[-2000:]), rc=p.returncode)
    for line in p.stdout.splitlines():
        if line.startswith("O "):
            parts = line.split()
            out["last_op"] = (int(parts[1]), parts[2])
        elif line.startswith("R "):
            sp = line.find(" ", 2)
            out["result"] = json.loads(line[sp + 1:])
        elif line.startswith("X "):
            out["outcome"] = "crash"
            out["crash_sig"] = int(line.split()[3].split("=")[1])
        elif line.startswith("F "):
            out["outcome"] = "fatal"
            out["fatal"] = line.split(None, 3)[3].strip()
        elif line.startswith("HARNESS-ERROR"):
            out["outcome"] = "harness-error"
            out["text"] = line
    if out["outcome"] == "ok":
        if p.returncode == 77 or "Sanitizer" in p.stderr or (binary in REPLAY_PREFIX and "==" in p.stderr and p.returncode != 0):
            out["outcome"] = "sanitizer"
        elif out["result"] is None:
            out["outcome"] = "crash"
            out["crash_sig"] = -p.returncode if p.returncode < 0 else p.returncode
        elif not out["result"]["ok"]:
            out["outcome"] = "violation"
    return out


# ------------------------------------------------------------------------------------------------
# violations: normalisation, attribution, gating, minimisation
# ------------------------------------------------------------------------------------------------
OP_PROP = {"MERKLE_XCHECK": "C08", "NTT": "C03", "INTT": "C04", "ROUNDTRIP": "C04", "EXTEND": "C05", "MERKLE": "C08", "PARCPY": "C17", "PARSETZERO": "C17"}
SIGNAMES = {6: "SIGABRT", 11: "SIGSEGV", 8: "SIGFPE", 7: "SIGBUS", 4: "SIGILL"}


def sanitizer_kind(text):
    for k in ("Mismatched free", "Invalid read", "Invalid write", "uninitialised value", "Invalid free", "alloc-dealloc-mismatch", "heap-buffer-overflow", "stack-buffer-overflow", "heap-use-after-free", "stack-use-after-return", "stack-use-after-scope", "global-buffer-overflow",
              "SEGV", "double-free", "dynamic-stack-buffer-overflow", "runtime error", "attempting free", "negative-size-param", "memcpy-param-overlap"):
        if k in text:
            return k
    return "sanitizer-report"


def findings_of(rep, plan, binary=None):
    """List of findings (dict cls, props, kind, oracle, detail) for one replay outcome."""
    out = []
    oc = rep["outcome"]
    if oc in ("violation", "ok") and rep["result"]:
        for v in rep["result"]["viol"]:
            out.append(dict(cls=v["cls"], props=list(v["props"]), kind=v["kind"], oracle=v["oracle"], detail=v.get("detail", ""), op=v["op"]))
    if oc in ("crash", "fatal", "sanitizer"):
        last = rep.get("last_op")
        kind = last[1] if last else "?"
        opi = last[0] if last else -1
        props = set()
        if kind in OP_PROP:
            props.add(OP_PROP[kind])
        if oc == "crash":
            sig = rep.get("crash_sig")
            cls = "crash(%s)" % SIGNAMES.get(sig, sig)
            if sig in (11, 7, 4, 8):
                props.add("C18")
            detail = (rep.get("text") or "").strip().splitlines()[-1:] or [""]
            detail = detail[0]
        elif oc == "fatal":
            cls = rep.get("fatal", "no-progress")
            detail = "step budget exceeded or no runnable member"
            if kind in ("END", "DELETE_OBJECT", "?"):
                props.add("C18")
        else:
            cls = "sanitizer(%s)" % sanitizer_kind(rep.get("text", ""))
            props.add("C18")
            lines = [l for l in (rep.get("text") or "").splitlines() if "ERROR" in l or "runtime error" in l or "Invalid" in l or "uninitialised" in l or "Mismatched" in l]
            detail = lines[0].strip() if lines else ""
            import re as _re
            detail = _re.sub(r"==\d+==", "", detail)
            detail = _re.sub(r"0x[0-9a-f]{6,}", "0x..", detail).strip()
        # a crash that needs an earlier call on the same object also breaks reusability (C19): decided
        # by executing the crashing op alone on a fresh object -- if that runs clean, history caused it
        if plan is not None and opi is not None and opi >= 0 and kind in OP_PROP and kind != "MERKLE" and binary is not None:
            ops = plan["plan"]
            if opi < len(ops):
                slot = ops[opi].get("obj", -1)
                if slot >= 0 and any(o.get("obj", -1) == slot and o["op"] in ("NTT", "INTT", "ROUNDTRIP", "EXTEND") for o in ops[:opi]):
                    solo = copy.deepcopy(plan)
                    solo["plan"] = [copy.deepcopy(ops[opi])]
                    solo["plan"][0]["obj"] = -1
                    # same ambient ICVs as the op saw are not reconstructed: the host ops before it are kept
                    solo["plan"] = [o for o in ops[:opi] if o["op"] == "HOST_ICV"] + solo["plan"]
                    r2 = run_replay(binary, solo)
                    if r2["outcome"] in ("ok", "violation"):
                        props.add("C19")
        if kind in ("END", "DELETE_OBJECT"):
            props.add("C18")
        out.append(dict(cls=cls, props=sorted(props), kind=kind, oracle="process outcome", detail=detail, op=opi))
    return out


def signature(f):
    return (f["cls"], f["kind"], f["oracle"])


def has_finding(rep, plan, prop, sig, binary=None):
    for f in findings_of(rep, plan, binary):
        if signature(f) == sig and prop in f["props"]:
            return f
    return None


def shrink_candidates(plan):
    """Yields simpler plans, most aggressive first (own greedy delta-debugging over ops / faults / arguments)."""
    ops = plan["plan"]
    # drop ops
    if len(ops) > 1:
        for i in range(len(ops)):
            q = copy.deepcopy(plan)
            del q["plan"][i]
            yield q
    # machine
    m = plan.get("machine", {})
    for k, v in (("thread_limit", 64), ("dyn", False), ("nthreads_var", 2), ("nthreads_var", 4)):
        if m.get(k) != v:
            q = copy.deepcopy(plan)
            q["machine"][k] = v
            yield q
    for i, o in enumerate(ops):
        s = o.get("sim")
        if s:
            for k, v in (("strategy", "serial-identity"), ("team_shortfall", False), ("dirty_heap", False), ("dirty_caller_buffers", False), ("misaligned_caller_buffers", False), ("adjacent_caller_buffers", False), ("main_first", False), ("host_team", 0)):
                if s.get(k) != v:
                    q = copy.deepcopy(plan)
                    q["plan"][i]["sim"][k] = v
                    if k == "strategy":
                        q["plan"][i]["sim"].pop("schedule", None)
                    yield q

        def setk(k, v, extra=None):
            q = copy.deepcopy(plan)
            q["plan"][i][k] = v
            if extra:
                q["plan"][i].update(extra)
            return q

        kind = o["op"]
        if kind in ("NTT", "INTT", "ROUNDTRIP", "EXTEND"):
            n = o.get("n", 1)
            if kind == "EXTEND":
                ne = o.get("n_ext", n)
                if ne > n:
                    yield setk("n_ext", ne // 2)
                if n > 1:
                    yield setk("n", n // 2)
                if n > 1 and ne > 1:
                    yield setk("n", n // 2, {"n_ext": ne // 2})
            elif n > 1:
                yield setk("n", n // 2)
            if o.get("maxn", 1) > max(n, 1):
                yield setk("maxn", max(n, 1))
                yield setk("maxn", o["maxn"] // 2)
            if o.get("ncols", 1) > 1:
                yield setk("ncols", 1)
                yield setk("ncols", o["ncols"] // 2)
                yield setk("ncols", o["ncols"] - 1)
            for k in ("nphase", "nphase2"):
                if k in o:
                    for v in (3, 1, 2):
                        if o[k] != v and (o[k] > v or o[k] == 0):
                            yield setk(k, v)
            for k in ("nblock", "nblock2"):
                if k in o:
                    for v in (1, 2):
                        if o[k] != v and (o[k] > v or o[k] == 0):
                            yield setk(k, v)
            for k in ("buffer", "buffer2"):
                if o.get(k):
                    yield setk(k, False)
            for k in ("dst", "dst2"):
                if k in o and o[k] != "other":
                    yield setk(k, "other")
            if o.get("obj_threads", 1) not in (1,):
                yield setk("obj_threads", 1)
                if o.get("obj_threads", 1) != 2:
                    yield setk("obj_threads", 2)
            if o.get("input") != "small":
                yield setk("input", "small")
            if o.get("obj", 0) > 0:
                yield setk("obj", 0)
            if o.get("extension", 1) > 1:
                yield setk("extension", 1)
                if o["extension"] > 2:
                    yield setk("extension", o["extension"] // 2)
        elif kind == "MERKLE_XCHECK":
            if o["rows"] > 1:
                yield setk("rows", o["rows"] // 2)
            if o["cols"] > 1:
                yield setk("cols", o["cols"] // 2)
                yield setk("cols", o["cols"] - 1)
            if o["dim"] > 1:
                yield setk("dim", 1)
            if o["nthreads"] != 1:
                yield setk("nthreads", 1)
        elif kind == "MERKLE":
            if o["rows"] > 1:
                yield setk("rows", o["rows"] // 2)
            if o["cols"] > 0:
                yield setk("cols", o["cols"] // 2)
                yield setk("cols", o["cols"] - 1)
            if o["dim"] > 1:
                yield setk("dim", 1)
            if o["batch"] > 1:
                yield setk("batch", 1)
                yield setk("batch", o["batch"] - 1)
            if o["nthreads"] not in (1,):
                yield setk("nthreads", 1)
                if o["nthreads"] != 2:
                    yield setk("nthreads", 2)
            if o.get("input") != "small":
                yield setk("input", "small")
            base = {"avx512": "avx", "batch_avx512": "batch_avx", "wrapper": "avx", "batch_wrapper": "batch_avx", "avx": "seq", "batch_avx": "batch_seq"}
            if o["variant"] in base:
                yield setk("variant", base[o["variant"]])
        elif kind in ("PARCPY", "PARSETZERO"):
            if o["size"] > 0:
                yield setk("size", o["size"] // 2)
                yield setk("size", o["size"] - 1)
            if o["threads"] not in (1, 2):
                yield setk("threads", 2)
                yield setk("threads", 1)
            elif o["threads"] == 2:
                yield setk("threads", 1)


def minimise(binary, plan, prop, sig, budget_runs=1500, budget_s=120):
    """Greedy: accept the first simpler candidate that still shows the same finding class for `prop`."""
    t0 = time.time()
    runs = 0
    cur = plan
    tried = set()
    progress = True
    while progress and runs < budget_runs and time.time() - t0 < budget_s:
        progress = False
        pos = 0
        while runs < budget_runs and time.time() - t0 < budget_s:
            # candidates of the current plan, continuing at the position of the last success (a pass
            # over all transformations; repeated until a whole pass brings nothing)
            cands = list(shrink_candidates(cur))
            if pos >= len(cands):
                break
            accepted = False
            while pos < len(cands):
                cand = cands[pos]
                key = json.dumps(cand, sort_keys=True)
                if key in tried:
                    pos += 1
                    continue
                tried.add(key)
                runs += 1
                rep = run_replay(binary, cand)
                if has_finding(rep, cand, prop, sig, binary):
                    cur = cand
                    progress = True
                    accepted = True
                    break
                pos += 1
                if runs >= budget_runs or time.time() - t0 > budget_s:
                    break
            if not accepted:
                break
    # schedule: if some op still needs a non-trivial strategy, make it explicit and shrink the switch list
    if any(o.get("sim", {}).get("strategy") not in (None, "serial-identity") for o in cur["plan"]):
        rep = run_replay(binary, cur, record=True)
        ex = rep["result"].get("explicit_plan") if rep.get("result") else None
        if ex and not rep["result"].get("recorded_truncated") and has_finding(run_replay(binary, ex), ex, prop, sig, binary):
            for k in ("property", "flavour"):
                if k in cur:
                    ex[k] = cur[k]
            cur = ex
            # ddmin over each op's switch list
            for i, skey in [(i, k) for i in range(len(cur["plan"])) for k in ("schedule", "schedule2")]:
                sch = cur["plan"][i].get("sim", {}).get(skey)
                if not sch:
                    continue
                chunk = max(1, len(sch) // 2)
                while chunk >= 1 and runs < budget_runs + 300 and time.time() - t0 < budget_s + 60:
                    j = 0
                    changed = False
                    while j < len(sch):
                        cand = copy.deepcopy(cur)
                        cs = sch[:j] + sch[j + chunk:]
                        cand["plan"][i]["sim"][skey] = cs
                        runs += 1
                        if has_finding(run_replay(binary, cand), cand, prop, sig, binary):
                            sch = cs
                            cur = cand
                            changed = True
                        else:
                            j += chunk
                    if chunk == 1 and not changed:
                        break
                    chunk = chunk // 2 if chunk > 1 else (1 if changed else 0)
    return cur, runs


def symbolise(binary, text):
    """Appends file:line for the text addresses a report mentions (the binary is -no-pie and built with -g1)."""
    import re
    pcs = re.findall(r"0x[0-9a-f]{5,8}\b", text or "")
    if not pcs or not shutil.which("addr2line"):
        return text
    try:
        out = subprocess.run(["addr2line", "-C", "-f", "-e", binary] + pcs, stdout=subprocess.PIPE, text=True, timeout=20).stdout.splitlines()
    except Exception:
        return text
    locs = []
    for k, pc in enumerate(pcs):
        if 2 * k + 1 < len(out):
            fn = out[2 * k].split("(")[0][-60:]
            loc = out[2 * k + 1]
            loc = loc.replace(B.REPO + "/", "").split(" (discriminator")[0]
            locs.append("%s = %s %s" % (pc, loc, fn))
    return text + "  [" + "; ".join(locs) + "]" if locs else text


def load_known():
    if not os.path.exists(KNOWN):
        return []
    return json.load(open(KNOWN)).get("findings", [])


def known_match(entry, prop, finding, plan):
    """A known finding is identified by property, class, op kind and a predicate over the minimised op's arguments."""
    if entry.get("status") != "open":
        return False  # "fixed" entries suppress nothing
    if entry.get("property") != prop or entry.get("cls") != finding["cls"] or entry.get("op_kind") != finding["kind"]:
        return False
    op = plan["plan"][finding["op"]] if 0 <= finding["op"] < len(plan["plan"]) else {}
    for k, v in entry.get("where", {}).items():
        if op.get(k) != v:
            return False
    return True


# ------------------------------------------------------------------------------------------------
def flavours_for(prop):
    fl = []
    for f in PROPS[prop]["flavours"]:
        if "avx512" in f and not B.cpu_has_avx512():
            continue
        fl.append(f)
    return fl


def build_all(flavours):
    bins = {}
    infos = {}
    for f in flavours:
        try:
            bins[f], infos[f] = B.build(f)
        except RuntimeError as e:
            kind = e.args[0] if e.args else "build"
            text = e.args[1] if len(e.args) > 1 else str(e)
            if kind == "unsupported-openmp":
                harness_error(text)
            harness_error("build of %s failed (%s):\n%s" % (f, kind, text[-3000:]))
    return bins, infos


def replay_mode(prop, path):
    plan = json.load(open(path))
    flavour = plan.get("flavour", "tsh-avx2")
    if "avx512" in flavour and not B.cpu_has_avx512():
        harness_error("replay needs AVX-512 hardware")
    bins, _ = build_all([flavour])
    if flavour.startswith("plain") and plan.get("profile") not in ("C08X", "C17X"):
        REPLAY_PREFIX[bins[flavour]] = ["valgrind", "-q", "--error-exitcode=77", "--exit-on-first-error=yes", "--leak-check=no"]
    rep = run_replay_file(bins[flavour], path)
    fs = findings_of(rep, plan, bins[flavour])
    log("replay outcome: %s" % rep["outcome"])
    hit = False
    for f in fs:
        log("  %s props=%s op#%s %s: %s -- %s" % (f["cls"], ",".join(f["props"]), f["op"], f["kind"], f["oracle"], f["detail"]))
        if prop in f["props"]:
            hit = True
    if rep["outcome"] == "sanitizer":
        log(rep["text"][-1500:])
    if hit:
        log("VIOLATION property=%s replay=%s" % (prop, path))
        sys.exit(1)
    log("no violation of %s in this replay" % prop)
    sys.exit(0)


def main():
    if len(sys.argv) < 3:
        log(__doc__)
        sys.exit(2)
    prop = sys.argv[1]
    if prop not in PROPS:
        harness_error("unknown or not-applicable property " + prop)
    if sys.argv[2] == "--replay":
        replay_mode(prop, sys.argv[3])
    tier = sys.argv[2]
    if tier not in TIERS:
        harness_error("tier must be quick or thorough")
    T = TIERS[tier]
    seed = int(os.environ.get("VERIF_SEED", "1") or 1)
    t_start = time.time()
    flavours = flavours_for(prop)
    log("== %s %s  seed=%d  flavours=%s" % (prop, tier, seed, ",".join(flavours)))
    bins, infos = build_all(flavours)
    log("build: " + ", ".join("%s %s" % (f, "cached" if infos[f].get("cached") else "%ss" % infos[f].get("build_s")) for f in flavours))
    for f in flavours:
        r = subprocess.run([bins[f], "--selfcheck"], stdout=subprocess.PIPE, stderr=subprocess.STDOUT, text=True)
        if r.returncode != 0:
            harness_error("oracle self-check failed in %s: %s" % (f, r.stdout.strip()[-500:]))
        infos[f]["per_member_tls"] = "per_member_tls=1" in r.stdout

    lim = dict(maxlog=T["maxlog"], maxlog_tree=T["maxlog_tree"], max_copy=T["max_copy"], huge=(tier == "thorough"))
    nruns = int(os.environ.get("VERIF_RUNS", T["runs"][prop]))
    deadline = time.time() + T["cap_s"]
    sweeps = []
    for k, f in enumerate(flavours):
        n = nruns if not f.startswith("asan") else max(200, nruns)
        if prop == "C18" and f.startswith("tsh"):
            n = nruns
        base = seed * 1000003 + k * 7919
        lim_f = dict(lim)
        if f.startswith("asan"):
            lim_f["maxlog"] = min(lim["maxlog"], 10)
        sw = Sweep(bins[f], f, prop, base, n, NPROC, lim_f, deadline, samples=True).run()
        sweeps.append(sw)
        log("sweep %-11s runs=%d wall=%.1fs crashes=%d sanitizer=%d fatals=%d restarts=%d%s" % (f, len(sw.results), sw.wall, len(sw.crashes), len(sw.sanitizer), len(sw.fatals), sw.restarts,
                                                                                          "  (stopped at the wall-clock cap)" if sw.timed_out else "  (stopped early: %d failing runs)" % sw.failures() if sw.stopped_early else ""))

    # ---- cold-start runs: one run per fresh process, the simulated multi-member execution is the first
    #      library code the process executes (lazily initialised process-global state, first-use races)
    ncold = int(os.environ.get("VERIF_COLD_RUNS", T["cold"]))
    for k, sw0 in enumerate(list(sweeps)):
        if sw0.flavour.startswith("asan") or ncold <= 0:
            continue
        cs = Sweep(sw0.binary, sw0.flavour, prop, sw0.base + 104729, ncold, NPROC, dict(sw0.lim, maxlog=min(sw0.lim["maxlog"], 7)), deadline + 60, samples=False)
        cs.cold = True
        cs.run()
        log("cold  %-11s runs=%d wall=%.1fs (one fresh process per run, simulated execution first) crashes=%d" % (cs.flavour, len(cs.results), cs.wall, len(cs.crashes)))
        sweeps.append(cs)

    # ---- bulk cross-backend agreement of the tree builders in the uninstrumented (as shipped -O3) builds: thorough C08.
    #      ~10^8 permutations through the vector kernels; a value-dependent divergence is only ever found by volume.
    if prop == "C08" and tier == "thorough":
        nb = int(os.environ.get("VERIF_BULK_RUNS", 24000))
        for k, f in enumerate(["plain-avx2", "plain-avx512"]):
            if "avx512" in f and not B.cpu_has_avx512():
                continue
            try:
                bbin, binfo = B.build(f)
            except RuntimeError as e:
                harness_error("build of %s failed: %s" % (f, e.args,))
            infos[f] = binfo
            bs = Sweep(bbin, f, "C08X", seed * 1000003 + 55001 + k, nb, NPROC, dict(lim), time.time() + 400, samples=False)
            bs.bulk = True
            bs.run()
            perms = sum(r["faults"].get("bulk_permutations", 0) for r in bs.results.values())
            log("bulk  %-11s runs=%d wall=%.1fs (every tree builder on one large input, trees compared; %.2e permutations) crashes=%d" % (f, len(bs.results), bs.wall, perms, len(bs.crashes)))
            sweeps.append(bs)

    # ---- bulk copies in the uninstrumented (as shipped -O3) build: thorough C17.  Sizes >= 2^20 elements (beyond what the
    #      access-level simulation affords), caller memory from mmap (private / shared mapping), occasionally one member's
    #      share >= 4 GiB.
    if prop == "C17" and tier == "thorough":
        nb = int(os.environ.get("VERIF_BULK_RUNS", 1200))
        try:
            bbin, binfo = B.build("plain-avx2")
        except RuntimeError as e:
            harness_error("build of plain-avx2 failed: %s" % (e.args,))
        infos["plain-avx2"] = binfo
        bs = Sweep(bbin, "plain-avx2", "C17X", seed * 1000003 + 57001, nb, NPROC, dict(lim), time.time() + 500, samples=False)
        bs.bulk = True
        bs.bulk_label = "/bulk-copy"
        bs.run()
        elems = sum(r["faults"].get("bulk_copy_elements", 0) for r in bs.results.values())
        log("bulk  %-11s runs=%d wall=%.1fs (parcpy / parSetZero over mmap'ed caller memory, %.2e elements) crashes=%d" % ("plain-avx2", len(bs.results), bs.wall, elems, len(bs.crashes)))
        sweeps.append(bs)

    # ---- valgrind memcheck over the uninstrumented (as shipped -O3) build: thorough tier of C18 ----------
    vg_sweep = None
    if prop == "C18" and tier == "thorough" and shutil.which("valgrind"):
        try:
            vbin, vinfo = B.build("plain-avx2")
        except RuntimeError as e:
            harness_error("build of plain-avx2 failed: %s" % (e.args,))
        infos["plain-avx2"] = vinfo
        nvg = int(os.environ.get("VERIF_VALGRIND_RUNS", 4000))
        vg_sweep = Sweep(vbin, "plain-avx2", prop, seed * 1000003 + 99991, nvg, NPROC, dict(lim, maxlog=min(lim["maxlog"], 8)), time.time() + 600, samples=False)
        vg_sweep.prefix = ["valgrind", "-q", "--error-exitcode=77", "--exit-on-first-error=yes", "--errors-for-leak-kinds=none", "--leak-check=no"]
        REPLAY_PREFIX[vbin] = vg_sweep.prefix
        vg_sweep.run()
        log("sweep %-11s runs=%d wall=%.1fs (under valgrind memcheck) reports=%d crashes=%d" % ("plain-avx2", len(vg_sweep.results), vg_sweep.wall, len(vg_sweep.sanitizer), len(vg_sweep.crashes)))
        sweeps.append(vg_sweep)

    # ---- determinism gate: same indices again, other worker counts, fresh processes -----------------
    gate_checked = 0
    gate_ok = True
    history_dependent_logs = 0
    for sw in sweeps:
        if sw.prefix:
            continue  # the valgrind sweep is re-executed only for its reports (below)
        g = min(T["gate"], sw.n)
        for wcount in (5, 1):
            gg = g if wcount == 5 else max(20, g // 8)
            if sw.cold:
                gg = min(gg, 48)
            if sw.bulk:
                gg = min(gg, 160)
            if len(sw.crashes) + len(sw.sanitizer) + len(sw.fatals) > 100:
                gg = min(gg, 40)  # a tree this broken restarts a worker per run; every violation is gated by its own replays anyway
            s2 = Sweep(sw.binary, sw.flavour, sw.profile, sw.base, gg, wcount, sw.lim, time.time() + 150)
            s2.cold = sw.cold
            s2.run()
            for i, r in s2.results.items():
                if i in sw.results:
                    gate_checked += 1
                    if sw.results[i]["ohash"] != r["ohash"]:
                        gate_ok = False
                        log("nondeterminism: %s index %d outcome hash %s vs %s" % (sw.flavour, i, sw.results[i]["ohash"], r["ohash"]))
                    elif sw.results[i]["hash"] != r["hash"]:
                        # same plan, same outputs, same findings, but another sequence of steps / decisions: the code
                        # under test keeps process-global state that costs steps only once (e.g. a lazily initialised
                        # read-only table).  Legitimate; counted, not an error.  Fresh-process runs stay exact.
                        history_dependent_logs += 1
            c1 = sorted(c[0] for c in sw.crashes + sw.sanitizer if c[0] < gg)
            c2 = sorted(c[0] for c in s2.crashes + s2.sanitizer)
            if c1 != c2 and not sw.timed_out and not sw.stopped_early:
                gate_ok = False
                log("nondeterminism: %s crash sets differ %s vs %s" % (sw.flavour, c1[:5], c2[:5]))
    # ---- replay gate: a strategy replaced by its recorded decision list must give the same interleaving --------
    replay_checked = 0
    for sw in sweeps:
        if sw.prefix or sw.cold or sw.bulk or sw.flavour.startswith("asan"):
            continue
        picked = [i for i, r in sorted(sw.results.items()) if r.get("nontrivial") and r.get("ok")][:10]
        for i in picked:
            g = subprocess.run(sw.cmd(0)[:1] + ["--gen", "--index", str(i)] + sw.cmd(0)[2:], stdout=subprocess.PIPE, text=True)
            plan = json.loads(g.stdout)
            r1 = run_replay(sw.binary, plan, record=True)
            if not r1.get("result") or "explicit_plan" not in r1["result"] or r1["result"].get("recorded_truncated"):
                continue
            r2 = run_replay(sw.binary, r1["result"]["explicit_plan"])
            replay_checked += 1
            if r1["result"]["sched"] != sw.results[i]["sched"]:
                history_dependent_logs += 1  # warm worker vs fresh process (see the determinism gate)
            if not r2.get("result") or r2["result"]["sched"] != r1["result"]["sched"] or r2["result"]["ok"] != r1["result"]["ok"]:
                gate_ok = False
                log("replay gate: %s index %d: the explicit decision list does not reproduce the seeded interleaving" % (sw.flavour, i))
    if gate_ok:
        log("replay gate: %d seeded interleavings re-executed from their recorded decision lists: identical" % replay_checked)
    if history_dependent_logs:
        log("NOTE: %d re-executed runs had identical plans, outputs and findings but a different step / decision sequence than in the long-lived worker: "
            "the code under test keeps process-global state that is built once per process (fresh-process executions are exact)" % history_dependent_logs)
    if gate_ok:
        log("determinism gate: %d (index, hash) pairs re-executed in fresh processes at worker counts 5 and 1: identical" % gate_checked)
    else:
        # decided after the violations: a change that gives the library process-global mutable state makes warm
        # runs depend on what the worker ran before; the cold-start runs (fresh process each) stay exact, and a
        # violation found and replayed there is reported as such.  Without one the check ends with exit 2.
        log("determinism gate FAILED for the long-lived workers (results depend on process history)")

    # ---- violations --------------------------------------------------------------------------------
    os.makedirs(REPLAYS, exist_ok=True)
    known = load_known()
    violations = []  # reported
    known_hits = []
    other_props = {}
    handled = {}
    total_viol_runs = 0
    skipped_events = 0
    unreproducible = []
    for sw in sorted(sweeps, key=lambda x: not x.cold):
        events = []  # (index, seed, plan or None)
        for i, r in sorted(sw.results.items()):
            if not r["ok"]:
                events.append((i, r["seed"], r.get("plan"), [dict(cls=v["cls"], props=v["props"], kind=v["kind"], oracle=v["oracle"], detail=v.get("detail", ""), op=v["op"]) for v in r["viol"]]))
        for (i, s, _x) in sw.crashes + sw.sanitizer + sw.fatals:
            events.append((i, s, None, None))
        events.sort(key=lambda e: e[0])
        # a badly broken tree violates in thousands of runs: every run counts in the evidence, but only the
        # first MAX_EVENTS per flavour are classified in fresh processes (signatures repeat quickly)
        skipped_events += max(0, len(events) - MAX_EVENTS)
        for (i, s, plan, fs) in events[:MAX_EVENTS]:
            if plan is None:
                g = subprocess.run(sw.cmd(0)[:1] + ["--gen", "--index", str(i)] + sw.cmd(0)[2:], stdout=subprocess.PIPE, text=True)
                plan = json.loads(g.stdout)
            if fs is None:
                rep = run_replay(sw.binary, plan)
                fs = findings_of(rep, plan, sw.binary)
                if not fs:
                    unreproducible.append("run %d of %s died in the sweep but its plan replays clean (seed %d)" % (i, sw.flavour, s))
                    continue
            mine = [f for f in fs if prop in f["props"]]
            for f in fs:
                if f not in mine:
                    for p_ in f["props"]:
                        other_props.setdefault(p_, set()).add(f["cls"])
            if not mine:
                continue
            total_viol_runs += 1
            for f in mine:
                sig = (sw.flavour,) + signature(f)
                if sig in handled:
                    handled[sig]["count"] += 1
                    continue
                handled[sig] = dict(count=1)
                if len(handled) > MAX_MINIMISE:
                    continue
                # gate: the same seed twice more in fresh processes, same finding
                ok2 = all(has_finding(run_replay(sw.binary, plan), plan, prop, signature(f), sw.binary) for _ in range(2))
                if not ok2:
                    unreproducible.append("violation %s of run %d (%s, seed %d) does not reproduce from its plan in a fresh process" % (f["cls"], i, sw.flavour, s))
                    handled.pop(sig, None)
                    continue
                small, runs = minimise(sw.binary, plan, prop, signature(f), budget_s=60 if tier == "quick" else 240)
                small["property"] = prop
                small["flavour"] = sw.flavour
                rep = run_replay(sw.binary, small)
                ff = has_finding(rep, small, prop, signature(f), sw.binary)
                if not ff:
                    unreproducible.append("minimised plan of run %d does not reproduce" % i)
                    continue
                small["outcome"] = ff["cls"]
                small["report"] = symbolise(sw.binary, "op#%d %s: %s -- %s" % (ff["op"], ff["kind"], ff["oracle"], ff["detail"]))
                small["found_by"] = dict(tier=tier, verif_seed=seed, index=i, run_seed=s, minimisation_runs=runs)
                hsh = hashlib.sha256(json.dumps(small["plan"], sort_keys=True).encode()).hexdigest()[:10]
                path = os.path.join(REPLAYS, "%s-%d-%s.json" % (prop, s, hsh))
                with open(path, "w") as fo:
                    json.dump(small, fo, indent=1)
                # fresh-process replay of the file itself
                rep2 = run_replay_file(sw.binary, path)
                if not has_finding(rep2, small, prop, signature(f), sw.binary):
                    unreproducible.append("replay file %s does not reproduce" % path)
                    os.unlink(path)
                    continue
                kn = [e for e in known if known_match(e, prop, ff, small)]
                if kn:
                    if not any(k[0] is kn[0] for k in known_hits):
                        log("KNOWN-FINDING: property=%s %s" % (prop, kn[0].get("what", ff["cls"])))
                    known_hits.append((kn[0], path))
                    os.unlink(path)
                else:
                    log("violation: %s [%s] %s" % (ff["cls"], sw.flavour, small["report"]))
                    if not any(v["path"] == path for v in violations):
                        log("VIOLATION property=%s replay=%s" % (prop, path))
                    violations.append(dict(path=path, cls=ff["cls"], report=small["report"], flavour=sw.flavour, ops=len(small["plan"])))
    if skipped_events:
        log("NOTE: %d further violating runs were not classified individually" % skipped_events)
    for p_, clss in sorted(other_props.items()):
        log("NOTE: runs of this sweep also showed findings that belong to %s (%s); they are reported by that property's check" % (p_, ", ".join(sorted(clss))))

    # ---- evidence -----------------------------------------------------------------------------------
    write_evidence(prop, tier, seed, sweeps, infos, gate_checked, violations, known_hits, total_viol_runs, time.time() - t_start, T, lim, gate_ok, replay_checked, history_dependent_logs)
    if violations:
        sys.exit(1)
    hung = [(sw.flavour, h) for sw in sweeps for h in sw.hangs]
    if hung:
        harness_error("a worker made no progress for %d s of wall clock in %s run index %d (seed %d): blocked in the OS or spinning in uninstrumented code; %d such runs" % (HANG_S, hung[0][0], hung[0][1][0], hung[0][1][1], len(hung)))
    if unreproducible or not gate_ok:
        for u in unreproducible[:5]:
            log("unreproducible: " + u)
        harness_error("determinism gate failed" if not gate_ok else "violations seen in the sweep do not reproduce in fresh processes")
    log("OK %s %s: %d simulated runs, no violation" % (prop, tier, sum(len(s.results) for s in sweeps)))
    sys.exit(0)


def write_evidence(prop, tier, seed, sweeps, infos, gate_checked, violations, known_hits, viol_runs, wall, T, lim, gate_ok=True, replay_checked=0, history_dependent_logs=0):
    os.makedirs(EVID, exist_ok=True)
    evals = 0
    distinct = set()
    interleavings = set()
    shapes = set()
    faults = {}
    probes = {}
    steps = regions = switches = ref_steps = serial = 0
    kinds = {}
    team_hist = {}
    samples = []
    per_flavour = {}
    unsupported = 0
    for sw in sweeps:
        pf = dict(runs=len(sw.results), wall_s=round(sw.wall, 2), crashes=len(sw.crashes), sanitizer_reports=len(sw.sanitizer), no_progress=len(sw.fatals), worker_restarts=sw.restarts, stopped_at_cap=sw.timed_out,
                  runs_per_hour=int(len(sw.results) / max(sw.wall, 1e-3) * 3600))
        per_flavour[sw.flavour + ("/cold-start" if sw.cold else "") + ("/valgrind" if sw.prefix else "") + (getattr(sw, "bulk_label", "/bulk-cross-backend") if sw.bulk else "")] = pf
        for i, r in sw.results.items():
            evals += 1
            shapes.add((sw.flavour, r["shape"]))
            if r["nontrivial"]:
                distinct.add((sw.flavour, r["shape"], r["sched"]))
                interleavings.add(r["sched"])
            for k, v in r["faults"].items():
                faults[k] = faults.get(k, 0) + v
            for p in r["probes"]:
                probes[p] = probes.get(p, 0) + 1
            steps += r["steps"]
            regions += r["regions"]
            switches += r["switches"]
            ref_steps += r["ref_steps"]
            serial += r["serial_steps"]
            unsupported += r.get("unsupported_ops", 0)
            for k in r["kinds"]:
                kinds[k] = kinds.get(k, 0) + 1
            team_hist[r["max_team"]] = team_hist.get(r["max_team"], 0) + 1
            if "plan" in r and len(samples) < 4 and r["ok"]:
                samples.append(dict(flavour=sw.flavour, index=i, run_seed=r["seed"], plan=r["plan"]["plan"], machine=r["plan"]["machine"], regions=r["regions"], switches=r["switches"], max_team=r["max_team"], event_hash=r["hash"]))
    expected_probes = EXPECTED_PROBES.get(prop, [])
    stuck = [p for p in expected_probes if probes.get(p, 0) == 0]
    for p in stuck:
        log("WARNING: reach probe '%s' was never hit in this run" % p)
    total_wall = sum(sw.wall for sw in sweeps)
    ev = {
        "property_id": prop,
        "tier": tier,
        "seed": seed,
        "level": "exploration",
        "coverage": {
            "evaluations": evals,
            "distinct_nontrivial": len(distinct),
            "rule": "one evaluation = one simulated run of a seeded plan (1-6 library calls with attached faults) under the simulated OpenMP runtime; a run is non-trivial when a team of >= 2 members was "
                    "delivered and really interleaved (>= 1 preemptive switch) or ran in a non-identity order; distinct = distinct (build flavour, plan shape hash, hash of all scheduling decisions)",
            "samples": samples,
            "simulated_runs_per_hour": int(evals / max(total_wall, 1e-3) * 3600),
            "seeds_per_hour": int(evals / max(total_wall, 1e-3) * 3600),
            "logical_time": {"simulated_steps_in_regions": steps, "instrumented_accesses_outside_regions": serial, "reference_run_steps": ref_steps, "parallel_regions": regions,
                             "note": "the code under test reads no clock; time is counted in preemption points (instrumented accesses, mem* calls, GOMP calls)"},
            "preemptive_switches": switches,
            "distinct_interleavings": len(interleavings),
            "distinct_plan_shapes": len(shapes),
            "fault_kinds_fired": faults,
            "op_kinds_executed": kinds,
            "max_team_histogram": {str(k): v for k, v in sorted(team_hist.items())},
            "reach_probes": dict(sorted(probes.items())),
            "reach_probes_stuck_at_zero": stuck,
            "determinism_gate": {"pairs_reexecuted": gate_checked, "result": "identical" if gate_ok else "FAILED", "explicit_schedule_replays": replay_checked,
                                 "outcome_identical_but_event_log_history_dependent": history_dependent_logs},
            "per_flavour": per_flavour,
            "components": {
                "real_code": ["every translation unit of /repo/src (" + ", ".join(infos[sweeps[0].flavour]["repo_units"]) + ") and all headers, compiled from the working tree; header-inline code through sim/shim.cpp"],
                "per_member_thread_local_storage": {f: bool(infos[f].get("per_member_tls")) for f in infos},
                "stubbed": ["OpenMP runtime (sim/simrt.cpp instead of libgomp)", "memcpy/memset/memmove of repo objects (recording wrappers forwarding to libc)",
                            "malloc/free/operator new[]/delete of repo objects in the tsh flavours (garbage fill, canaries, allocator-kind bookkeeping, then libc)"],
            },
            "blind_spot_audit": {f: {"uninstrumented_external_symbols": infos[f]["uninstrumented_external_symbols"], "asm_with_memory_effects": infos[f]["asm_with_memory_effects"]} for f in infos},
            "tree_hash": infos[sweeps[0].flavour]["tree_hash"],
            "bounds": {"occasional_huge_shapes": bool(lim.get("huge")), "transform_sizes_up_to": 1 << lim["maxlog"], "tree_rows_up_to": 1 << lim["maxlog_tree"], "copy_sizes_up_to": lim["max_copy"], "team_sizes": "1..128", "columns_up_to": 1000},
            "runs_with_violation_of_this_property": viol_runs,
            "violations_reported": [dict(replay=v["path"], outcome=v["cls"], report=v["report"], flavour=v["flavour"]) for v in violations],
            "known_findings_matched": [k[0].get("what", "") for k in known_hits],
            "unsupported_ops_skipped": unsupported,
            "exhaustive": False,
        },
        "assumptions": ASSUMPTIONS.get(prop, []) + COMMON_ASSUMPTIONS,
        "wall_s": round(wall, 2),
        "violations": len(violations),
    }
    with open(os.path.join(EVID, prop + ".json"), "w") as f:
        json.dump(ev, f, indent=1)


COMMON_ASSUMPTIONS = [
    "seeded sampling of plans, team sizes, faults and interleavings: a clean batch is evidence, not proof",
    "the simulator's OpenMP semantics (static schedules computed inline by GCC, fork/join, barrier, critical) match libgomp's for the constructs the repository uses",
    "instrumented -O3 -fsanitize=thread (compile-only) objects are not byte-identical to the shipped -O3 objects",
    "the oracles (own % p arithmetic, recursive FFT validated against the naive DFT at start-up, Poseidon over the library's constant tables validated against two known answers) are correct",
]
ASSUMPTIONS = {
    "C12": ["GCC's compile-time choice of the default (static) schedule for loops without a schedule clause is not varied"],
    "C17": ["only the second sentence of C17 (parcpy / parSetZero) is decided; the 191 strided/indexed/broadcast overloads are pure functions and are not decided here"],
    "C18": ["only the simulated surfaces (transforms, trees, copy helpers, object lifetimes) are decided; kernel-only parts of C18 (C09, C13, C14, C16, C17a) are executed only incidentally",
            "uninitialised reads are attacked through garbage-filled heap/scratch/destination versus clean reference runs (and valgrind in the thorough tier), not through MSan"],
}
EXPECTED_PROBES = {
    "C03": ["size<maxDomain", "size==maxDomain", "even_nphase_in_place", "ntt_null_dst_nblock>1", "nphase_clamped", "nblock_clamped", "noop_size0", "noop_ncols0", "team>trip_count", "team==1", "size==1", "fault_free_configuration"],
    "C04": ["size<maxDomain", "intt_last_pass_width1", "intt_last_pass_wider", "intt_null_dst_nblock>1", "nphase_not_dividing_log", "fault_free_configuration", "inverse_via_NTT_flag", "main_before_reference"],
    "C05": ["extend_even_nphase_single_block", "extend_N==1", "extend_N==N_ext", "extend_in_place", "size<maxDomain", "fault_free_configuration", "extension_object_used_directly", "main_before_reference"],
    "C08": ["rows==1", "rowlen%8!=0", "rowlen<=4_passthrough", "cols==0", "batch_not_dividing_cols", "batch>=cols", "merkle_nThreads0_after_icv_perturb", "dim>1", "team>trip_count", "fault_free_configuration"],
    "C12": ["team>trip_count", "team==trip_count", "team<trip_count", "team==1", "three_members_in_flight", "shortfall_fired", "limit_capped", "team>=64", "team>64", "main_before_reference"],
    "C17": ["copy_size0", "copy_threads<1", "copy_threads>size", "copy_last_chunk_short", "copy_threads_huge"],
    "C18": ["object_destroyed_after_extend", "object_destroyed", "rows==1", "size==1", "object_for_maxDomainSize_0", "garbage_differential_run"],
    "C19": ["object_reused", "second_extend_with_different_N", "size<maxDomain", "merkle_nThreads0_after_icv_perturb", "extension_object_used_directly", "main_before_reference"],
}

if __name__ == "__main__":
    main()
