// gsim: worker loop, replay, plan generation, self-check.
#include "exec.hpp"
#include "sim.hpp"
#include <cstdio>
#include <cstdlib>
#include <cstring>
#include <csignal>
#include <unistd.h>
#include <fstream>
#include <sstream>
#include <string>

static volatile long g_cur_index = -1;
static volatile unsigned long long g_cur_seed = 0;

// The worker protocol (S/R/X/F/D/O lines) goes to a private duplicate of the original stdout; fd 1 itself is
// pointed at /dev/null, so that anything the code under test prints (debug output a maintainer may add) cannot
// corrupt the protocol.
static int g_proto_fd = 1;
static FILE *PF = stdout;
static void put(const char *s) { (void)!write(g_proto_fd, s, strlen(s)); }
static void put_u(unsigned long long v)
{
    char b[24];
    int i = 23;
    b[i] = 0;
    do
    {
        b[--i] = (char)('0' + v % 10);
        v /= 10;
    } while (v);
    put(b + i);
}
static void crash_handler(int sig)
{
    // async-signal-safe: the library under test aborted / faulted inside a run
    put("\nX ");
    put_u((unsigned long long)g_cur_index);
    put(" ");
    put_u(g_cur_seed);
    put(" sig=");
    put_u((unsigned long long)sig);
    put("\n");
    _exit(4);
}
static void fatal_hook(const char *what)
{
    fflush(PF);
    put("\nF ");
    put_u((unsigned long long)g_cur_index);
    put(" ");
    put_u(g_cur_seed);
    put(" ");
    put(what);
    put("\n");
    _exit(3);
}

#if defined(SIM_ASAN)
extern "C" __attribute__((used)) const char *__asan_default_options()
{
    return "exitcode=77:detect_leaks=0:alloc_dealloc_mismatch=1:detect_stack_use_after_return=0:max_malloc_fill_size=1073741824:malloc_fill_byte=203:handle_abort=0:handle_segv=1:abort_on_error=0:allocator_may_return_null=1";
}
extern "C" __attribute__((used)) const char *__ubsan_default_options() { return "exitcode=77:print_stacktrace=0:halt_on_error=1"; }
#endif

static std::string arg_of(int argc, char **argv, const char *name, const char *def)
{
    for (int i = 1; i + 1 < argc; i++)
        if (!strcmp(argv[i], name))
            return argv[i + 1];
    return def;
}
static bool has_flag(int argc, char **argv, const char *name)
{
    for (int i = 1; i < argc; i++)
        if (!strcmp(argv[i], name))
            return true;
    return false;
}

int main(int argc, char **argv)
{
    g_proto_fd = dup(1);
    PF = fdopen(g_proto_fd, "w");
    setvbuf(PF, nullptr, _IOLBF, 1 << 16);
    exec::g_trace_file = PF;
    if (!freopen("/dev/null", "w", stdout))
        return 2;
    sim::init();
    sim::g_fatal_hook = fatal_hook;
    std::string err;
    if (!exec::init(err))
    {
        fprintf(PF, "HARNESS-ERROR oracle self-check failed: %s\n", err.c_str());
        return 2;
    }
    if (has_flag(argc, argv, "--selfcheck"))
    {
        fprintf(PF, "SELFCHECK ok flavour=%s per_member_tls=%d\n", sim::g_asan_flavour ? "coarse" : "tsh", (int)sim::member_tls_enabled());
        return 0;
    }
#ifndef SIM_ASAN
    signal(SIGSEGV, crash_handler);
    signal(SIGBUS, crash_handler);
#endif
    signal(SIGABRT, crash_handler);
    signal(SIGFPE, crash_handler);
    signal(SIGILL, crash_handler);

    plan::GenLimits lim;
    lim.maxlog = (unsigned)atoi(arg_of(argc, argv, "--maxlog", "7").c_str());
    lim.maxlog_tree = (unsigned)atoi(arg_of(argc, argv, "--maxlog-tree", "5").c_str());
    lim.max_copy = strtoull(arg_of(argc, argv, "--max-copy", "5000").c_str(), nullptr, 10);
    lim.avx512 = has_flag(argc, argv, "--avx512");
    lim.coarse = sim::g_asan_flavour;
    lim.cold = has_flag(argc, argv, "--cold");
    lim.huge = has_flag(argc, argv, "--huge");
    std::string profile = arg_of(argc, argv, "--profile", "C12");
    uint64_t base = strtoull(arg_of(argc, argv, "--seed", "1").c_str(), nullptr, 10);

    if (has_flag(argc, argv, "--replay"))
    {
        std::string path = arg_of(argc, argv, "--replay", "");
        std::ifstream f(path);
        if (!f)
        {
            fprintf(PF, "HARNESS-ERROR cannot open %s\n", path.c_str());
            return 2;
        }
        std::stringstream ss;
        ss << f.rdbuf();
        plan::Plan p;
        try
        {
            js::Value v = js::parse(ss.str());
            p = plan::Plan::from_json(v);
        }
        catch (std::exception &e)
        {
            fprintf(PF, "HARNESS-ERROR bad replay file: %s\n", e.what());
            return 2;
        }
        exec::g_record = has_flag(argc, argv, "--record");
        exec::g_trace_ops = true;
        g_cur_index = 0;
        g_cur_seed = p.seed;
        fprintf(PF, "S 0 %llu\n", (unsigned long long)p.seed);
        fflush(PF);
        exec::RunResult r = exec::run_plan_checked(p);
        js::Value out = exec::result_json(r, true);
        if (exec::g_record)
        {
            // the same plan with every simulated op's strategy replaced by its recorded decisions
            plan::Plan q = p;
            for (auto &kv : r.recorded)
                if (kv.first >= 0 && kv.first < (int)q.ops.size())
                {
                    q.ops[kv.first].strategy = sim::ST_REPLAY;
                    q.ops[kv.first].schedule = kv.second;
                }
            for (auto &kv : r.recorded2)
                if (kv.first >= 0 && kv.first < (int)q.ops.size())
                    q.ops[kv.first].schedule2 = kv.second;
            out.set("explicit_plan", q.to_json());
            out.set("recorded_truncated", js::Value::Bool(r.recorded_truncated));
        }
        fprintf(PF, "R 0 %s\n", out.str().c_str());
        fflush(PF);
        return r.violations.empty() ? 0 : 1;
    }

    if (has_flag(argc, argv, "--gen"))
    {
        uint64_t idx = strtoull(arg_of(argc, argv, "--index", "0").c_str(), nullptr, 10);
        plan::Plan p = plan::generate(profile, derive_seed(base, idx), lim);
        fprintf(PF, "%s\n", p.to_json().str().c_str());
        return 0;
    }

    if (has_flag(argc, argv, "--worker"))
    {
        uint64_t start = strtoull(arg_of(argc, argv, "--start", "0").c_str(), nullptr, 10);
        uint64_t stride = strtoull(arg_of(argc, argv, "--stride", "1").c_str(), nullptr, 10);
        uint64_t end = strtoull(arg_of(argc, argv, "--end", "100").c_str(), nullptr, 10);
        bool samples = has_flag(argc, argv, "--samples");
        for (uint64_t i = start; i < end; i += stride)
        {
            uint64_t seed = derive_seed(base, i);
            g_cur_index = (long)i;
            g_cur_seed = seed;
            fprintf(PF, "S %llu %llu\n", (unsigned long long)i, (unsigned long long)seed);
            fflush(PF);
            plan::Plan p = plan::generate(profile, seed, lim);
            exec::RunResult r = exec::run_plan_checked(p);
            js::Value out = exec::result_json(r, true);
            out.set("seed", js::Value::U(seed));
            if (!r.violations.empty() || (samples && i < start + 3 * stride))
                out.set("plan", p.to_json());
            fprintf(PF, "R %llu %s\n", (unsigned long long)i, out.str().c_str());
            fflush(PF);
        }
        fprintf(PF, "D %llu\n", (unsigned long long)start);
        fflush(PF);
        return 0;
    }
    fprintf(PF, "usage: gsim --worker|--replay f|--gen|--selfcheck ...\n");
    return 2;
}
