#include "oracle.hpp"
#include <cstring>
#include <cstdio>

namespace oracle
{

uint64_t pw(uint64_t b, uint64_t e)
{
    uint64_t r = 1;
    b = red(b);
    while (e)
    {
        if (e & 1)
            r = mul(r, b);
        b = mul(b, b);
        e >>= 1;
    }
    return r;
}
uint64_t inv(uint64_t a) { return pw(a, P - 2); }

static uint64_t g_roots[33];
static bool g_roots_ready = false;
static void init_roots()
{
    if (g_roots_ready)
        return;
    // the library's primitive 2^32-th root of unity; the chain below it is derived by squaring and
    // validated in selfcheck() (order exactly 2^k, w_1 = -1, w_2 = 2^48, w_3 = 2^24, w_6 = 8)
    g_roots[32] = 7277203076849721926ULL;
    for (int k = 31; k >= 0; k--)
        g_roots[k] = mul(g_roots[k + 1], g_roots[k + 1]);
    g_roots_ready = true;
}
uint64_t root_of_unity(unsigned k)
{
    init_roots();
    return g_roots[k];
}

void dft_naive(std::vector<uint64_t> &out, const std::vector<uint64_t> &in, uint64_t n, uint64_t ncols, bool inverse)
{
    out.assign(n * ncols, 0);
    if (n == 0)
        return;
    unsigned lg = 0;
    while (((uint64_t)1 << lg) < n)
        lg++;
    uint64_t w = root_of_unity(lg);
    if (inverse)
        w = inv(w);
    uint64_t ninv = inv(n % P);
    for (uint64_t k = 0; k < n; k++)
    {
        uint64_t wk = pw(w, k);
        for (uint64_t c = 0; c < ncols; c++)
        {
            uint64_t acc = 0, x = 1;
            for (uint64_t j = 0; j < n; j++)
            {
                acc = add(acc, mul(in[j * ncols + c], x));
                x = mul(x, wk);
            }
            out[k * ncols + c] = inverse ? mul(acc, ninv) : acc;
        }
    }
}

// textbook recursive radix-2 decimation in time on one column
static void fft_rec(uint64_t *a, uint64_t n, uint64_t w, uint64_t *scratch)
{
    if (n == 1)
        return;
    uint64_t h = n / 2;
    uint64_t *ev = scratch, *od = scratch + h;
    for (uint64_t i = 0; i < h; i++)
    {
        ev[i] = a[2 * i];
        od[i] = a[2 * i + 1];
    }
    memcpy(a, ev, h * 8);
    memcpy(a + h, od, h * 8);
    uint64_t w2 = mul(w, w);
    fft_rec(a, h, w2, scratch);
    fft_rec(a + h, h, w2, scratch);
    uint64_t x = 1;
    for (uint64_t k = 0; k < h; k++)
    {
        uint64_t e = a[k], o = mul(x, a[k + h]);
        a[k] = add(e, o);
        a[k + h] = sub(e, o);
        x = mul(x, w);
    }
}

static void fft_cols(std::vector<uint64_t> &out, const std::vector<uint64_t> &in, uint64_t n, uint64_t ncols, bool inverse)
{
    out.assign(n * ncols, 0);
    if (n == 0 || ncols == 0)
        return;
    unsigned lg = 0;
    while (((uint64_t)1 << lg) < n)
        lg++;
    uint64_t w = root_of_unity(lg);
    if (inverse)
        w = inv(w);
    uint64_t ninv = inv(n % P);
    std::vector<uint64_t> col(n), scratch(n);
    for (uint64_t c = 0; c < ncols; c++)
    {
        for (uint64_t j = 0; j < n; j++)
            col[j] = red(in[j * ncols + c]);
        fft_rec(col.data(), n, w, scratch.data());
        for (uint64_t j = 0; j < n; j++)
            out[j * ncols + c] = inverse ? mul(col[j], ninv) : col[j];
    }
}

void dft(std::vector<uint64_t> &out, const std::vector<uint64_t> &in, uint64_t n, uint64_t ncols)
{
    if (n <= 16)
        dft_naive(out, in, n, ncols, false);
    else
        fft_cols(out, in, n, ncols, false);
}
void idft(std::vector<uint64_t> &out, const std::vector<uint64_t> &in, uint64_t n, uint64_t ncols)
{
    if (n <= 16)
        dft_naive(out, in, n, ncols, true);
    else
        fft_cols(out, in, n, ncols, true);
}

uint64_t horner(const std::vector<uint64_t> &coef, uint64_t n, uint64_t ncols, uint64_t c, uint64_t x)
{
    uint64_t acc = 0;
    for (uint64_t j = n; j-- > 0;)
        acc = add(mul(acc, x), coef[j * ncols + c]);
    return acc;
}

void lde(std::vector<uint64_t> &out, const std::vector<uint64_t> &in, uint64_t N, uint64_t Next, uint64_t ncols)
{
    std::vector<uint64_t> coef;
    idft(coef, in, N, ncols);
    std::vector<uint64_t> padded(Next * ncols, 0);
    uint64_t s = 1;
    for (uint64_t i = 0; i < N; i++)
    {
        for (uint64_t c = 0; c < ncols; c++)
            padded[i * ncols + c] = mul(coef[i * ncols + c], s);
        s = mul(s, 7);
    }
    dft(out, padded, Next, ncols);
}

// ---------------------------------------------------------------------------------------------
static const uint64_t *tC, *tS, *tM, *tP;
void set_poseidon_tables(const uint64_t *C, const uint64_t *S, const uint64_t *M, const uint64_t *Pm)
{
    tC = C;
    tS = S;
    tM = M;
    tP = Pm;
}
static inline uint64_t pow7(uint64_t x)
{
    uint64_t x2 = mul(x, x), x3 = mul(x, x2), x4 = mul(x2, x2);
    return mul(x3, x4);
}
static void matmul(uint64_t st[12], const uint64_t *mat)
{
    uint64_t o[12];
    for (int i = 0; i < 12; i++)
    {
        uint64_t acc = 0;
        for (int j = 0; j < 12; j++)
            acc = add(acc, mul(mat[j * 12 + i], st[j]));
        o[i] = acc;
    }
    memcpy(st, o, sizeof o);
}
void poseidon(uint64_t st[12])
{
    for (int i = 0; i < 12; i++)
        st[i] = add(st[i], tC[i]);
    // first half of the full rounds: 3 with M, the 4th with P (partial-round pre-matrix)
    for (int r = 0; r < 4; r++)
    {
        for (int i = 0; i < 12; i++)
            st[i] = add(pow7(st[i]), tC[(r + 1) * 12 + i]);
        matmul(st, r < 3 ? tM : tP);
    }
    for (int r = 0; r < 22; r++)
    {
        uint64_t s0 = add(pow7(st[0]), tC[5 * 12 + r]);
        st[0] = s0;
        const uint64_t *S = tS + 23 * r;
        uint64_t d = 0;
        for (int i = 0; i < 12; i++)
            d = add(d, mul(st[i], S[i]));
        for (int i = 1; i < 12; i++)
            st[i] = add(st[i], mul(s0, S[11 + i]));
        st[0] = d;
    }
    for (int r = 0; r < 3; r++)
    {
        for (int i = 0; i < 12; i++)
            st[i] = add(pow7(st[i]), tC[5 * 12 + 22 + r * 12 + i]);
        matmul(st, tM);
    }
    for (int i = 0; i < 12; i++)
        st[i] = pow7(st[i]);
    matmul(st, tM);
}

void linear_hash(uint64_t out[4], const uint64_t *in, uint64_t size)
{
    if (size <= 4)
    {
        for (uint64_t i = 0; i < 4; i++)
            out[i] = i < size ? red(in[i]) : 0;
        return;
    }
    uint64_t st[12];
    uint64_t cap[4] = {0, 0, 0, 0};
    uint64_t pos = 0;
    while (pos < size)
    {
        uint64_t n = size - pos < 8 ? size - pos : 8;
        for (uint64_t i = 0; i < 8; i++)
            st[i] = i < n ? red(in[pos + i]) : 0;
        for (int i = 0; i < 4; i++)
            st[8 + i] = cap[i];
        poseidon(st);
        for (int i = 0; i < 4; i++)
            cap[i] = st[i];
        pos += n;
    }
    for (int i = 0; i < 4; i++)
        out[i] = cap[i];
}

static void build_levels(std::vector<uint64_t> &tree, uint64_t rows)
{
    // level by level: hashes of adjacent digest pairs (eight elements, zero capacity)
    uint64_t level_start = 0, level_n = rows;
    while (level_n > 1)
    {
        uint64_t next_start = level_start + level_n * 4;
        for (uint64_t i = 0; i < level_n / 2; i++)
        {
            uint64_t st[12];
            for (int k = 0; k < 8; k++)
                st[k] = red(tree[level_start + i * 8 + k]);
            st[8] = st[9] = st[10] = st[11] = 0;
            poseidon(st);
            for (int k = 0; k < 4; k++)
                tree[next_start + i * 4 + k] = st[k];
        }
        level_start = next_start;
        level_n /= 2;
    }
}

void merkle_tree(std::vector<uint64_t> &tree, const std::vector<uint64_t> &input, uint64_t cols, uint64_t rows, uint64_t dim)
{
    tree.assign(rows ? 4 * (2 * rows - 1) : 0, 0);
    uint64_t rowlen = cols * dim;
    for (uint64_t i = 0; i < rows; i++)
        linear_hash(&tree[i * 4], input.data() + i * rowlen, rowlen);
    build_levels(tree, rows);
}

void merkle_tree_batch(std::vector<uint64_t> &tree, const std::vector<uint64_t> &input, uint64_t cols, uint64_t rows, uint64_t batch, uint64_t dim)
{
    tree.assign(rows ? 4 * (2 * rows - 1) : 0, 0);
    uint64_t rowlen = cols * dim;
    uint64_t nb = cols > 0 ? (cols + batch - 1) / batch : 1;
    std::vector<uint64_t> cat(nb * 4);
    for (uint64_t i = 0; i < rows; i++)
    {
        for (uint64_t j = 0; j < nb; j++)
        {
            uint64_t first = j * batch;
            uint64_t ncol = (j == nb - 1) ? cols - first : batch;
            linear_hash(&cat[j * 4], input.data() + i * rowlen + first * dim, ncol * dim);
        }
        linear_hash(&tree[i * 4], cat.data(), nb * 4);
    }
    build_levels(tree, rows);
}

std::string selfcheck()
{
    char buf[200];
    init_roots();
    // roots: primitive, and a few spot values every Goldilocks implementation agrees on
    for (unsigned k = 1; k <= 32; k++)
    {
        uint64_t w = g_roots[k];
        if (pw(w, (uint64_t)1 << (k - 1)) != P - 1)
        {
            snprintf(buf, sizeof buf, "root_of_unity(%u) is not primitive", k);
            return buf;
        }
    }
    if (g_roots[0] != 1 || g_roots[1] != P - 1 || g_roots[2] != 281474976710656ULL || g_roots[3] != 16777216ULL || g_roots[6] != 8 || g_roots[32] != 7277203076849721926ULL)
        return "root table does not match the expected two-adic generator chain";
    if (mul(inv(12345), 12345) != 1)
        return "inv";
    // FFT against the naive sum for every n <= 256, a few column counts
    uint64_t x = 88172645463325252ULL;
    for (uint64_t n = 1; n <= 256; n *= 2)
        for (uint64_t ncols : {1, 3})
        {
            std::vector<uint64_t> in(n * ncols), a, b;
            for (auto &v : in)
            {
                x ^= x << 13;
                x ^= x >> 7;
                x ^= x << 17;
                v = x;
            }
            for (int invs = 0; invs < 2; invs++)
            {
                dft_naive(a, in, n, ncols, invs);
                fft_cols(b, in, n, ncols, invs);
                if (a != b)
                {
                    snprintf(buf, sizeof buf, "fft != naive dft at n=%lu inverse=%d", (unsigned long)n, invs);
                    return buf;
                }
            }
            // lde agrees with Horner on the interpolant
            if (n <= 64)
            {
                std::vector<uint64_t> coef, ext;
                idft(coef, in, n, ncols);
                uint64_t Next = n * 4;
                lde(ext, in, n, Next, ncols);
                unsigned lg = 0;
                while (((uint64_t)1 << lg) < Next)
                    lg++;
                for (uint64_t k = 0; k < Next; k += (Next > 8 ? 5 : 1))
                    for (uint64_t c = 0; c < ncols; c++)
                        if (horner(coef, n, ncols, c, mul(7, pw(g_roots[lg], k))) != ext[k * ncols + c])
                            return "lde != horner";
            }
        }
    // Poseidon known answers (the two the repository's own tests use)
    if (!tC)
        return "poseidon tables not set";
    uint64_t fib[12];
    fib[0] = 0;
    fib[1] = 1;
    for (int i = 2; i < 12; i++)
        fib[i] = fib[i - 1] + fib[i - 2];
    poseidon(fib);
    static const uint64_t exp_fib[12] = {0X3095570037F4605DULL, 0X3D561B5EF1BC8B58ULL, 0X8129DB5EC75C3226ULL, 0X8EC2B67AFB6B87EDULL, 0XFC591F17D0FAB161ULL, 0X1D2B045CC2FEA1ADULL,
                                         0X8A4E3B0CB12D4527ULL, 0XFF217A756AE2211ULL, 0X78F6E79CFC407293ULL, 0X3DE827E086AE61C9ULL, 0X921456F6D2D11E27ULL, 0XF58A41D4028C66A5ULL};
    for (int i = 0; i < 12; i++)
        if (fib[i] != exp_fib[i])
        {
            snprintf(buf, sizeof buf, "reference poseidon(fibonacci)[%d] mismatch (library constant tables changed?)", i);
            return buf;
        }
    uint64_t z[12] = {0};
    poseidon(z);
    static const uint64_t exp_z[7] = {0X3C18A9786CB0B359ULL, 0XC4055E3364A246C3ULL, 0X7953DB0AB48808F4ULL, 0XC71603F33A1144CAULL, 0XD7709673896996DCULL, 0X46A84E87642F44EDULL, 0XD032648251EE0B3CULL};
    for (int i = 0; i < 7; i++)
        if (z[i] != exp_z[i])
            return "reference poseidon(zero) mismatch (library constant tables changed?)";
    return "";
}

} // namespace oracle
