#include "plan.hpp"
#include <climits>
#include <algorithm>

namespace plan
{
static const char *KNAMES[K_NKINDS] = {"NTT", "INTT", "ROUNDTRIP", "EXTEND", "MERKLE", "PARCPY", "PARSETZERO", "HOST_ICV", "DELETE_OBJECT", "MERKLE_XCHECK", "COPY_BIG"};
const char *kind_name(int k) { return (k >= 0 && k < K_NKINDS) ? KNAMES[k] : "?"; }
int kind_from(const std::string &s)
{
    for (int i = 0; i < K_NKINDS; i++)
        if (s == KNAMES[i])
            return i;
    return -1;
}
static const char *DNAMES[3] = {"src", "other", "null"};
static const char *INAMES[IN_NKINDS] = {"rand", "rand64", "unit", "small", "edge"};
static const char *SNAMES[5] = {"serial-identity", "serial-perm", "random-walk", "pct", "replay"};
static const char *VNAMES[8] = {"seq", "avx", "batch_seq", "batch_avx", "wrapper", "batch_wrapper", "avx512", "batch_avx512"};

static int find_name(const char *const *names, int n, const std::string &s, int def)
{
    for (int i = 0; i < n; i++)
        if (s == names[i])
            return i;
    return def;
}

js::Value Op::to_json() const
{
    using js::Value;
    Value v = Value::Obj();
    v.set("op", Value::S(kind_name(kind)));
    switch (kind)
    {
    case K_NTT:
    case K_INTT:
    case K_ROUNDTRIP:
    case K_EXTEND:
        v.set("obj", Value::I(obj)).set("maxn", Value::U(maxn)).set("obj_threads", Value::U(obj_threads));
        v.set("n", Value::U(n));
        if (extension > 1)
            v.set("extension", Value::I(extension));
        if (kind == K_EXTEND)
            v.set("n_ext", Value::U(n_ext));
        v.set("ncols", Value::U(ncols)).set("nphase", Value::U(nphase)).set("nblock", Value::U(nblock));
        v.set("buffer", Value::Bool(buffer)).set("dst", Value::S(DNAMES[dst]));
        if (kind == K_ROUNDTRIP)
        {
            v.set("inverse_first", Value::Bool(inverse_first));
            v.set("nphase2", Value::U(nphase2)).set("nblock2", Value::U(nblock2)).set("buffer2", Value::Bool(buffer2)).set("dst2", Value::S(DNAMES[dst2]));
        }
        if (inv_via_ntt)
            v.set("inv_via_ntt", Value::Bool(true));
        v.set("input", Value::S(INAMES[input])).set("input_seed", Value::U(input_seed));
        break;
    case K_MERKLE:
        v.set("variant", Value::S(VNAMES[variant])).set("rows", Value::U(rows)).set("cols", Value::U(cols)).set("dim", Value::U(dim)).set("batch", Value::U(batch));
        v.set("nthreads", Value::I(nthreads));
        v.set("input", Value::S(INAMES[input])).set("input_seed", Value::U(input_seed));
        break;
    case K_MERKLE_XCHECK:
        v.set("rows", Value::U(rows)).set("cols", Value::U(cols)).set("dim", Value::U(dim)).set("batch", Value::U(batch)).set("nthreads", Value::I(nthreads));
        v.set("input", Value::S(INAMES[input])).set("input_seed", Value::U(input_seed));
        break;
    case K_COPY_BIG:
        v.set("size", Value::U(size)).set("threads", Value::I(threads)).set("input_seed", Value::U(input_seed)).set("zero", Value::Bool(big_zero)).set("shared_mapping", Value::Bool(big_shared));
        break;
    case K_PARCPY:
    case K_PARSETZERO:
        v.set("size", Value::U(size)).set("threads", Value::I(threads)).set("input_seed", Value::U(input_seed));
        break;
    case K_HOST_ICV:
        v.set("icv_nthreads", Value::I(icv_nthreads)).set("icv_dyn", Value::I(icv_dyn)).set("icv_limit", Value::I(icv_limit));
        break;
    case K_DELETE_OBJECT:
        v.set("obj", Value::I(obj));
        break;
    }
    if (kind != K_HOST_ICV && kind != K_DELETE_OBJECT)
    {
        Value s = Value::Obj();
        s.set("strategy", Value::S(SNAMES[strategy]));
        if (strategy == sim::ST_RANDOM_WALK)
            s.set("p_log", Value::I(p_log));
        if (strategy == sim::ST_PCT)
            s.set("pct_d", Value::I(pct_d));
        s.set("sched_seed", Value::U(sched_seed));
        s.set("team_shortfall", Value::Bool(shortfall)).set("dirty_heap", Value::Bool(dirty_heap)).set("dirty_caller_buffers", Value::Bool(dirty_bufs));
        s.set("garbage_seed", Value::U(garbage_seed));
        if (main_first)
            s.set("main_first", Value::Bool(true));
        if (misaligned_bufs)
            s.set("misaligned_caller_buffers", Value::Bool(true));
        if (adjacent_bufs)
            s.set("adjacent_caller_buffers", Value::Bool(true));
        if (host_team > 1)
            s.set("host_team", Value::I(host_team));
        if (strategy == sim::ST_REPLAY)
        {
            Value arr = Value::Arr();
            for (auto &sw : schedule)
            {
                Value e = Value::Arr();
                e.push(Value::I(sw.region)).push(Value::I(sw.member)).push(Value::I(sw.at)).push(Value::I(sw.next));
                arr.push(e);
            }
            s.set("schedule", arr);
            if (!schedule2.empty())
            {
                Value arr2 = Value::Arr();
                for (auto &sw : schedule2)
                {
                    Value e = Value::Arr();
                    e.push(Value::I(sw.region)).push(Value::I(sw.member)).push(Value::I(sw.at)).push(Value::I(sw.next));
                    arr2.push(e);
                }
                s.set("schedule2", arr2);
            }
        }
        v.set("sim", s);
    }
    return v;
}

Op Op::from_json(const js::Value &v)
{
    Op o;
    o.kind = kind_from(v.gets("op"));
    if (o.kind < 0)
        throw std::runtime_error("unknown op kind " + v.gets("op"));
    o.obj = (int)v.geti("obj", 0);
    o.maxn = v.getu("maxn", 1);
    o.obj_threads = (uint32_t)v.getu("obj_threads", 1);
    o.n = v.getu("n", 1);
    o.extension = (int)v.geti("extension", 1);
    if (o.extension < 1)
        o.extension = 1;
    o.n_ext = v.getu("n_ext", o.n);
    o.ncols = v.getu("ncols", 1);
    o.nphase = v.getu("nphase", 3);
    o.nblock = v.getu("nblock", 1);
    o.buffer = v.getb("buffer");
    o.dst = find_name(DNAMES, 3, v.gets("dst", "other"), D_OTHER);
    o.inverse_first = v.getb("inverse_first");
    o.nphase2 = v.getu("nphase2", 3);
    o.nblock2 = v.getu("nblock2", 1);
    o.buffer2 = v.getb("buffer2");
    o.dst2 = find_name(DNAMES, 3, v.gets("dst2", "other"), D_OTHER);
    o.inv_via_ntt = v.getb("inv_via_ntt");
    o.input = find_name(INAMES, IN_NKINDS, v.gets("input", "rand"), IN_RAND);
    o.input_seed = v.getu("input_seed", 1);
    o.variant = find_name(VNAMES, 8, v.gets("variant", "seq"), 0);
    o.rows = v.getu("rows", 1);
    o.cols = v.getu("cols", 1);
    o.dim = v.getu("dim", 1);
    o.batch = v.getu("batch", 1);
    o.nthreads = (int)v.geti("nthreads", 1);
    o.size = v.getu("size", 0);
    o.threads = (int)v.geti("threads", 1);
    o.big_zero = v.getb("zero");
    o.big_shared = v.getb("shared_mapping");
    o.icv_nthreads = (int)v.geti("icv_nthreads", -1);
    o.icv_dyn = (int)v.geti("icv_dyn", -1);
    o.icv_limit = (int)v.geti("icv_limit", -1);
    if (const js::Value *s = v.find("sim"))
    {
        o.strategy = find_name(SNAMES, 5, s->gets("strategy", "serial-identity"), 0);
        o.p_log = (int)s->geti("p_log", 5);
        o.pct_d = (int)s->geti("pct_d", 2);
        o.sched_seed = s->getu("sched_seed", 1);
        o.shortfall = s->getb("team_shortfall");
        o.dirty_heap = s->getb("dirty_heap");
        o.dirty_bufs = s->getb("dirty_caller_buffers");
        o.garbage_seed = s->getu("garbage_seed", 0);
        o.main_first = s->getb("main_first");
        o.misaligned_bufs = s->getb("misaligned_caller_buffers");
        o.adjacent_bufs = s->getb("adjacent_caller_buffers");
        o.host_team = (int)s->geti("host_team", 0);
        if (const js::Value *arr = s->find("schedule"))
            for (auto &e : arr->a)
                if (e.a.size() == 4)
                    o.schedule.push_back(sim::Switch{(int32_t)e.a[0].asi(), (int32_t)e.a[1].asi(), e.a[2].asi(), (int32_t)e.a[3].asi()});
        if (const js::Value *arr = s->find("schedule2"))
            for (auto &e : arr->a)
                if (e.a.size() == 4)
                    o.schedule2.push_back(sim::Switch{(int32_t)e.a[0].asi(), (int32_t)e.a[1].asi(), e.a[2].asi(), (int32_t)e.a[3].asi()});
    }
    return o;
}

js::Value Plan::to_json() const
{
    using js::Value;
    Value v = Value::Obj();
    v.set("profile", Value::S(profile)).set("seed", Value::U(seed));
    Value m = Value::Obj();
    m.set("nthreads_var", Value::I(machine.nthreads_var)).set("thread_limit", Value::I(machine.thread_limit)).set("dyn", Value::Bool(machine.dyn));
    v.set("machine", m);
    v.set("fault_free", Value::Bool(fault_free));
    if (garbage_differential)
        v.set("garbage_differential", Value::Bool(true));
    Value arr = Value::Arr();
    for (auto &o : ops)
        arr.push(o.to_json());
    v.set("plan", arr);
    return v;
}

Plan Plan::from_json(const js::Value &v)
{
    Plan p;
    p.profile = v.gets("profile");
    p.seed = v.getu("seed");
    if (const js::Value *m = v.find("machine"))
    {
        p.machine.nthreads_var = (int)m->geti("nthreads_var", 4);
        p.machine.thread_limit = (int)m->geti("thread_limit", 64);
        p.machine.dyn = m->getb("dyn");
    }
    p.fault_free = v.getb("fault_free");
    p.garbage_differential = v.getb("garbage_differential");
    if (const js::Value *arr = v.find("plan"))
        for (auto &o : arr->a)
            p.ops.push_back(Op::from_json(o));
    return p;
}

// ---------------------------------------------------------------------------------------------
// generators (edge-biased)
// ---------------------------------------------------------------------------------------------
struct Gen
{
    Rng r;
    const GenLimits &lim;
    bool fault_free;
    // swarm: which fault kinds this run may use
    bool en_shortfall, en_dirty_heap, en_dirty_bufs, en_icv, en_fine, en_misalign, en_adjacent;
    Gen(uint64_t seed, const GenLimits &l) : r(seed), lim(l) {}

    unsigned pick_log(unsigned maxlog)
    {
        // weight towards small sizes: most bugs reproduce small, and runs stay cheap
        unsigned a = (unsigned)r.range(0, maxlog), b = (unsigned)r.range(0, maxlog);
        return r.chance(2, 3) ? std::min(a, b) : a;
    }
    uint64_t pick_ncols(bool allow_zero)
    {
        static const uint64_t c[] = {1, 1, 2, 3, 4, 5, 7, 8, 9, 12, 16, 17, 33, 40};
        if (allow_zero && r.chance(1, 30))
            return 0;
        if (r.chance(1, 12))
        {
            // wide matrices (the size is reduced accordingly by the caller): thresholds such as 64/128/256 columns
            static const uint64_t w[] = {63, 64, 65, 100, 127, 128, 129, 130, 200, 255, 256, 257, 300, 513, 1000};
            return r.pick(w);
        }
        return r.pick(c);
    }
    uint64_t pick_nphase(unsigned logn)
    {
        switch (r.below(12))
        {
        case 0:
            return 0;
        case 1:
            return 1;
        case 2:
            return 2;
        case 3:
            return 3;
        case 4:
            return 4;
        case 5:
            return 5;
        case 6:
            return logn ? logn - 1 : 0;
        case 7:
            return logn;
        case 8:
            return logn + 1;
        case 9:
            return r.range(0, logn + 2);
        case 10:
            return (uint64_t)1 << 32;
        default:
            return UINT64_MAX;
        }
    }
    uint64_t pick_nblock(uint64_t ncols)
    {
        switch (r.below(12))
        {
        case 0:
            return 0;
        case 1:
        case 2:
        case 3:
            return 1;
        case 4:
            return 2;
        case 5:
            return 3;
        case 6:
            return ncols ? ncols - 1 : 0;
        case 7:
            return ncols;
        case 8:
            return ncols + 1;
        case 9:
            return r.range(0, ncols + 2);
        case 10:
            return (uint64_t)1 << 32;
        default:
            return UINT64_MAX;
        }
    }
    uint32_t pick_obj_threads()
    {
        static const uint32_t t[] = {1, 2, 2, 3, 4, 4, 5, 6, 7, 8, 12, 16, 31, 64, 100, 128, 1000, 0};
        return r.pick(t);
    }
    int pick_input()
    {
        static const int k[] = {IN_RAND, IN_RAND, IN_RAND64, IN_RAND64, IN_UNIT, IN_SMALL, IN_EDGE};
        return r.pick(k);
    }
    void sim_params(Op &o, uint64_t work /* rough element count, to keep p=1/4 on small shapes */)
    {
        o.sched_seed = r.next();
        o.garbage_seed = r.next();
        o.main_first = lim.cold;
        if (fault_free)
        {
            o.strategy = sim::ST_SERIAL_IDENTITY;
            return;
        }
        o.shortfall = en_shortfall && r.chance(1, 2);
        o.dirty_heap = en_dirty_heap && r.chance(3, 4);
        o.dirty_bufs = en_dirty_bufs && r.chance(3, 4);
        o.misaligned_bufs = en_misalign && r.chance(1, 2);
        o.adjacent_bufs = en_adjacent && r.chance(1, 2);
        if (lim.coarse || !en_fine)
        {
            // The coarse flavours (ASan, valgrind) run the members one after another, in index order or in a seeded
            // permutation, and never preempt inside a member: there all members share one TLS block (the tools own
            // per-thread state behind FS), and a legitimate per-thread scratch in thread_local storage would be
            // clobbered by a preemption.  Interleavings are the business of the tsh flavours.
            o.strategy = r.chance(1, 4) ? sim::ST_SERIAL_IDENTITY : sim::ST_SERIAL_PERM;
            return;
        }
        uint64_t x = r.below(100);
        if (x < 22)
            o.strategy = sim::ST_SERIAL_PERM;
        else if (x < 62)
        {
            o.strategy = sim::ST_RANDOM_WALK;
            static const int pl[] = {2, 5, 8, 12};
            o.p_log = r.pick(pl);
            if (o.p_log == 2 && work > 4096)
                o.p_log = 5;
        }
        else
        {
            o.strategy = sim::ST_PCT;
            o.pct_d = (int)r.range(1, 4);
        }
    }
    void gen_transform(Op &o, int kind, int slot, unsigned slot_log, uint32_t slot_threads)
    {
        o.kind = kind;
        o.obj = slot;
        o.maxn = (uint64_t)1 << slot_log;
        o.obj_threads = slot_threads;
        unsigned logn = r.chance(1, 2) ? slot_log : (unsigned)r.range(0, slot_log);
        o.n = (uint64_t)1 << logn;
        o.ncols = pick_ncols(kind != K_EXTEND && kind != K_ROUNDTRIP);
        if (lim.huge && r.chance(1, 300))
        {
            // far beyond the usual bounds: index arithmetic in narrower types, tables indexed by log2(size) > 12
            logn = (unsigned)r.range(13, 16);
            o.n = (uint64_t)1 << logn;
            o.maxn = r.chance(1, 2) ? o.n : o.n << r.range(1, 2);
            o.obj = -1;
            o.ncols = r.range(1, 2);
        }
        // keep wide matrices small in rows so that a run stays cheap
        while (o.ncols > 40 && logn > 0 && (o.n * o.ncols > (lim.maxlog > 8 ? 131072u : 16384u)))
        {
            logn--;
            o.n = (uint64_t)1 << logn;
        }
        if (kind == K_EXTEND)
        {
            unsigned logext = logn + (unsigned)std::min<uint64_t>(r.below(4), lim.maxlog > logn ? lim.maxlog - logn : 0);
            while (o.ncols > 40 && logext > logn && (((uint64_t)1 << logext) * o.ncols > (lim.maxlog > 8 ? 131072u : 16384u)))
                logext--;
            o.n_ext = (uint64_t)1 << logext;
            o.nphase = pick_nphase(logext);
            o.dst = r.chance(1, 2) ? D_SRC : D_OTHER;
        }
        else
        {
            if ((kind == K_NTT || kind == K_INTT) && r.chance(1, 40))
            {
                o.n = 0;
                if (r.chance(1, 3))
                    o.maxn = 0; // an object constructed for maxDomainSize 0 may only be asked for no-ops
            }
            o.nphase = pick_nphase(logn);
            o.dst = (int)r.below(3);
            if ((kind == K_NTT || kind == K_INTT) && o.n >= 2 && r.chance(1, 8))
            {
                // an object built with the public `extension` constructor argument, used directly: rows at and
                // beyond n/extension of the input count as zero (what extendPol's internal transform relies on)
                unsigned le = (unsigned)r.range(1, std::min(logn, 3u));
                o.extension = 1 << le;
                if (r.chance(1, 2))
                    o.nphase = 2 * r.range(1, 2); // even phase counts take the in-place padding path
                if (r.chance(1, 2))
                    o.nblock = 1;
            }
        }
        o.nblock = pick_nblock(o.ncols);
        o.buffer = r.chance(1, 2);
        if (kind == K_INTT || kind == K_ROUNDTRIP)
            o.inv_via_ntt = r.chance(1, 4);
        if (kind == K_ROUNDTRIP)
        {
            o.inverse_first = r.chance(1, 2);
            o.nphase2 = pick_nphase(logn);
            o.nblock2 = pick_nblock(o.ncols);
            o.buffer2 = r.chance(1, 2);
            o.dst2 = (int)r.below(3);
        }
        o.input = pick_input();
        o.input_seed = r.next();
        sim_params(o, (kind == K_EXTEND ? o.n_ext : o.n) * std::max<uint64_t>(o.ncols, 1));
        if (!fault_free && kind != K_ROUNDTRIP && o.n > 0 && o.ncols > 0 && (kind == K_EXTEND ? o.n_ext : o.n) * o.ncols <= 8192 && r.chance(1, 10))
        {
            static const int ht[] = {2, 2, 3, 4};
            o.host_team = r.pick(ht); // also called by every member of an application parallel region, each on its own object
        }
    }
    void gen_merkle(Op &o, bool ambient_bias)
    {
        o.kind = K_MERKLE;
        int nv = lim.avx512 ? 8 : 6;
        o.variant = (int)r.below(nv);
        unsigned lr = pick_log(lim.maxlog_tree);
        o.rows = (uint64_t)1 << lr;
        static const uint64_t c[] = {0, 1, 2, 3, 4, 5, 6, 7, 8, 9, 10, 11, 12, 13, 15, 16, 17, 24, 25, 33, 40};
        o.cols = r.pick(c);
        o.dim = r.chance(2, 3) ? 1 : r.range(2, 3);
        if (lim.huge && r.chance(1, 300))
        {
            o.rows = (uint64_t)1 << r.range(9, 11);
            o.cols = r.range(0, 9);
            o.dim = 1;
        }
        else if (r.chance(1, 14))
        {
            // long rows (many sponge blocks; thresholds such as 64/128/256 elements per row)
            static const uint64_t wide[] = {64, 100, 127, 128, 129, 200, 255, 256, 257, 400};
            o.cols = r.pick(wide);
            if (o.rows > 8)
                o.rows = (uint64_t)1 << r.range(0, 3);
        }
        else if (o.rows * o.cols * o.dim > 4096)
            o.cols = o.cols % 9;
        switch (r.below(8))
        {
        case 0:
            o.batch = 1;
            break;
        case 1:
            o.batch = 2;
            break;
        case 2:
            o.batch = 3;
            break;
        case 3:
            o.batch = 4;
            break;
        case 4:
            o.batch = o.cols > 1 ? o.cols - 1 : 1;
            break;
        case 5:
            o.batch = std::max<uint64_t>(o.cols, 1);
            break;
        case 6:
            o.batch = o.cols + 1;
            break;
        default:
            o.batch = r.range(1, o.cols + 3);
        }
        static const int t[] = {0, 1, 2, 3, 4, 5, 6, 7, 8, 12, 16, 24, 64, 128};
        switch (r.below(ambient_bias ? 4 : 8))
        {
        case 0:
        case 1:
            o.nthreads = 0;
            break;
        case 2:
            o.nthreads = (int)o.rows + (int)r.range(0, 2) - 1;
            if (o.nthreads < 1)
                o.nthreads = 1;
            break;
        default:
            o.nthreads = r.pick(t);
        }
        o.input = pick_input();
        o.input_seed = r.next();
        sim_params(o, o.rows * 64);
        if (!fault_free && r.chance(1, 8))
        {
            static const int ht[] = {2, 2, 3, 4, 8};
            o.host_team = r.pick(ht); // called from inside an application parallel region
        }
    }
    void gen_copy(Op &o, bool zero)
    {
        o.kind = zero ? K_PARSETZERO : K_PARCPY;
        static const uint64_t s[] = {0, 1, 2, 3, 4, 7, 8, 9, 31, 63, 64, 65, 100, 127, 255, 1000, 1023, 4097, 5000};
        o.size = r.chance(1, 2) ? r.pick(s) : r.chance(1, 3) ? r.range(0, lim.max_copy) : r.range(0, 600);
        if (o.size > lim.max_copy)
            o.size = lim.max_copy;
        switch (r.below(14))
        {
        case 0:
            o.threads = INT_MIN;
            break;
        case 1:
            o.threads = -5;
            break;
        case 2:
            o.threads = 0;
            break;
        case 3:
            o.threads = 1;
            break;
        case 4:
            o.threads = 2;
            break;
        case 5:
            o.threads = 3;
            break;
        case 6:
            o.threads = 7;
            break;
        case 7:
            o.threads = 64;
            break;
        case 8:
            o.threads = (int)o.size - 1;
            break;
        case 9:
            o.threads = (int)o.size;
            break;
        case 10:
            o.threads = (int)o.size + 1;
            break;
        case 11:
            o.threads = 1000000;
            break;
        case 12:
            o.threads = INT_MAX;
            break;
        default:
            o.threads = (int)r.range(1, 70);
        }
        o.input_seed = r.next();
        sim_params(o, o.size);
        if (!fault_free && r.chance(1, 8))
        {
            static const int ht[] = {2, 2, 3, 4, 8};
            o.host_team = r.pick(ht);
        }
    }
    void gen_icv(Op &o)
    {
        o.kind = K_HOST_ICV;
        static const int t[] = {1, 2, 3, 4, 5, 6, 7, 8, 12, 16, 32, 64, 128};
        o.icv_nthreads = r.chance(3, 4) ? r.pick(t) : -1;
        o.icv_dyn = r.chance(1, 2) ? (int)r.below(2) : -1;
        static const int l[] = {1, 2, 3, 4, 8, 16, 64, 128};
        o.icv_limit = r.chance(1, 3) ? r.pick(l) : -1;
    }
};

Plan generate(const std::string &profile, uint64_t seed, const GenLimits &lim)
{
    Plan p;
    p.profile = profile;
    p.seed = seed;
    Gen g(derive_seed(seed, 0x504c414e), lim);
    Rng &r = g.r;
    // one run in eight is the fault-free configuration: exact team, identity order, clean memory
    p.fault_free = g.fault_free = r.chance(1, 8);
    g.en_shortfall = r.chance(2, 3);
    g.en_dirty_heap = r.chance(3, 4);
    g.en_dirty_bufs = r.chance(3, 4);
    g.en_icv = r.chance(2, 3);
    g.en_fine = r.chance(5, 6);
    g.en_misalign = r.chance(1, 2);
    g.en_adjacent = r.chance(1, 2);
    static const int cores[] = {1, 2, 3, 4, 4, 6, 8, 8, 12, 16, 32, 64, 96, 128};
    static const int limits[] = {1, 2, 3, 4, 8, 16, 64, 64, 64, 64, 128, 128};
    p.machine.nthreads_var = r.pick(cores);
    p.machine.thread_limit = p.fault_free ? 128 : r.pick(limits);
    p.machine.dyn = p.fault_free ? false : r.chance(1, 3);

    unsigned slot_log[2];
    uint32_t slot_threads[2];
    for (int s = 0; s < 2; s++)
    {
        slot_log[s] = g.pick_log(lim.maxlog);
        slot_threads[s] = g.pick_obj_threads();
    }
    auto maybe_icv = [&](unsigned num, unsigned den) {
        if (!p.fault_free && g.en_icv && r.chance(num, den))
        {
            Op o;
            g.gen_icv(o);
            p.ops.push_back(o);
        }
    };
    auto transform = [&](int kind, int slot) {
        Op o;
        g.gen_transform(o, kind, slot, slot_log[slot < 0 ? 0 : slot], slot_threads[slot < 0 ? 0 : slot]);
        p.ops.push_back(o);
    };

    if (profile == "C03" || profile == "C04" || profile == "C05")
    {
        int nops = (int)r.range(1, 3);
        if (profile != "C05" && r.chance(1, 6))
            transform(K_EXTEND, 0); // the shared object has served an extension before (cached shift tables of another size)
        for (int i = 0; i < nops; i++)
        {
            maybe_icv(1, 4);
            int kind = profile == "C03" ? K_NTT : profile == "C05" ? K_EXTEND : (r.chance(1, 2) ? K_INTT : K_ROUNDTRIP);
            bool direct_ext = profile == "C05" && r.chance(1, 5);
            if (direct_ext)
                kind = r.chance(2, 3) ? K_NTT : K_INTT;
            transform(kind, r.chance(1, 5) ? -1 : 0);
            Op &o = p.ops.back();
            if (direct_ext && o.extension == 1 && o.n >= 2)
            {
                // the zero-padding transform object behind extendPol, used directly
                unsigned lg = 0;
                while (((uint64_t)1 << (lg + 1)) <= o.n)
                    lg++;
                o.extension = 1 << (int)r.range(1, std::min(lg, 3u));
                if (r.chance(1, 2))
                    o.nphase = 2 * r.range(1, 2);
                if (r.chance(1, 2))
                    o.nblock = 1;
            }
        }
    }
    else if (profile == "C08")
    {
        int nops = (int)r.range(1, 2);
        for (int i = 0; i < nops; i++)
        {
            maybe_icv(1, 2);
            Op o;
            g.gen_merkle(o, false);
            p.ops.push_back(o);
        }
    }
    else if (profile == "C08X")
    {
        // bulk value sweep: one large tree per run, built by every backend, compared with each other
        Op o;
        o.kind = K_MERKLE_XCHECK;
        o.rows = (uint64_t)1 << r.range(7, 10);
        static const uint64_t c[] = {5, 8, 8, 8, 9, 12, 16, 17, 24};
        o.cols = r.pick(c);
        o.dim = r.chance(3, 4) ? 1 : 2;
        o.misaligned_bufs = r.chance(1, 2);
        if (r.chance(1, 60))
        {
            o.rows = (uint64_t)1 << r.range(15, 17); // wide levels: thresholds such as 2^15 nodes
            o.cols = r.range(1, 5);
            o.dim = 1;
        }
        o.batch = r.range(2, 9);
        o.nthreads = (int)r.range(1, 8);
        o.input = r.chance(3, 4) ? IN_RAND : IN_RAND64;
        o.input_seed = r.next();
        o.sched_seed = r.next();
        o.garbage_seed = r.next();
        o.strategy = sim::ST_SERIAL_IDENTITY;
        p.fault_free = true;
        p.ops.push_back(o);
    }
    else if (profile == "C17X")
    {
        // bulk copies: sizes far beyond the simulated sweeps (>= 2^20 elements; occasionally more than 4 GiB handled
        // by one member), caller memory obtained from mmap as a private or a shared mapping
        Op o;
        o.kind = K_COPY_BIG;
        static const uint64_t bs[] = {1u << 20, (1u << 20) + 5, (1u << 20) - 1, (1u << 21) + 4097, 3u << 20, (1u << 22) + 511, (1u << 23) + 1, 1048581};
        o.size = r.pick(bs);
        static const int bt[] = {1, 2, 3, 4, 7, 8, 16, 37, 64, 64, 0, -1, 1000000};
        o.threads = r.pick(bt);
        o.big_zero = r.chance(1, 2);
        o.big_shared = r.chance(1, 2);
        if (r.chance(1, 120))
        {
            // one member's share reaches 4 GiB (byte counts that no longer fit 32 bits)
            static const uint64_t gs[] = {(uint64_t)1 << 29, ((uint64_t)1 << 29) + 12345, ((uint64_t)1 << 29) + ((uint64_t)1 << 20)};
            o.size = r.pick(gs);
            o.threads = 1;
            o.big_shared = false;
        }
        o.input_seed = r.next();
        o.sched_seed = r.next();
        o.garbage_seed = r.next();
        o.strategy = r.chance(1, 2) ? sim::ST_SERIAL_PERM : sim::ST_SERIAL_IDENTITY;
        o.shortfall = r.chance(1, 3); // fewer members than requested
        p.fault_free = false;
        p.ops.push_back(o);
    }
    else if (profile == "C17")
    {
        int nops = (int)r.range(1, 3);
        for (int i = 0; i < nops; i++)
        {
            maybe_icv(1, 4);
            Op o;
            g.gen_copy(o, r.chance(1, 2));
            p.ops.push_back(o);
        }
    }
    else if (profile == "C19")
    {
        int nops = (int)r.range(2, 6);
        if (slot_log[0] < 2 && r.chance(3, 4))
            slot_log[0] = (unsigned)r.range(2, std::max(2u, lim.maxlog));
        for (int i = 0; i < nops; i++)
        {
            maybe_icv(1, 4);
            uint64_t x = r.below(100);
            int slot = r.chance(1, 6) ? 1 : 0;
            if (x < 25)
                transform(K_NTT, slot);
            else if (x < 45)
                transform(K_INTT, slot);
            else if (x < 55)
                transform(K_ROUNDTRIP, slot);
            else if (x < 88)
                transform(K_EXTEND, slot);
            else if (x < 95)
            {
                Op o;
                g.gen_merkle(o, true);
                p.ops.push_back(o);
            }
            else
            {
                Op o;
                o.kind = K_DELETE_OBJECT;
                o.obj = slot;
                p.ops.push_back(o);
            }
        }
    }
    else // C12, C18 and anything else: the whole mix
    {
        bool lifetimes = profile == "C18";
        p.garbage_differential = lifetimes && !p.fault_free;
        int nops = (int)r.range(1, lifetimes ? 5 : 3);
        if (lifetimes && r.chance(1, 3))
            slot_log[0] = (unsigned)r.below(2); // objects for maxDomainSize 1 and 2
        for (int i = 0; i < nops; i++)
        {
            maybe_icv(1, 4);
            uint64_t x = r.below(100);
            int slot = r.chance(1, 4) ? -1 : (r.chance(1, 5) ? 1 : 0);
            if (x < 18)
                transform(K_NTT, slot);
            else if (x < 32)
                transform(K_INTT, slot);
            else if (x < 38)
                transform(K_ROUNDTRIP, slot);
            else if (x < 58)
                transform(K_EXTEND, slot);
            else if (x < 80)
            {
                Op o;
                g.gen_merkle(o, false);
                p.ops.push_back(o);
            }
            else if (x < (lifetimes ? 90u : 100u))
            {
                Op o;
                g.gen_copy(o, r.chance(1, 2));
                p.ops.push_back(o);
            }
            else
            {
                Op o;
                o.kind = K_DELETE_OBJECT;
                o.obj = slot < 0 ? 0 : slot;
                p.ops.push_back(o);
            }
        }
    }
    return p;
}
} // namespace plan
