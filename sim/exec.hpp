// Executes a plan against the real library under the simulator and evaluates the oracles.
#pragma once
#include "plan.hpp"
#include <set>
#include <map>
#include <cstdio>

namespace exec
{
struct Violation
{
    std::string cls;                // outcome class
    std::vector<std::string> props; // properties this violates
    int op_index = -1;
    std::string op_kind;
    std::string oracle; // which oracle / comparison fired
    std::string detail; // first differing position etc. (no raw addresses)
};

struct RunResult
{
    std::vector<Violation> violations;
    uint64_t hash = 0;       // event-log hash: plan, per-region teams + decisions, output digests, outcome
    uint64_t outcome_hash = 0; // plan, output digests and findings only (no scheduling decisions, no step counts)
    uint64_t shape_hash = 0; // plan shape (kinds + arguments, without seeds)
    uint64_t sched_hash = 0; // all scheduling decisions of the main executions
    int ops = 0;
    int regions = 0;
    uint64_t steps = 0;   // simulated steps (main executions, in regions)
    uint64_t serial_steps = 0;
    uint64_t ref_steps = 0;
    uint64_t switches = 0;
    int max_team = 0;
    bool nontrivial = false; // a team of >= 2 members really interleaved or ran in non-identity order
    std::map<std::string, uint64_t> faults; // fired counts per fault kind
    std::set<std::string> probes;
    std::vector<std::string> kinds;
    int unsupported_ops = 0; // e.g. AVX-512 variant in a build without it
    std::map<int, std::vector<sim::Switch>> recorded; // op index -> decisions of its main execution (when g_record)
    std::map<int, std::vector<sim::Switch>> recorded2; // op index -> decisions of its second simulated execution (nested transform)
    bool recorded_truncated = false;
    std::vector<uint64_t> op_digest; // per op: digest of the outputs of its simulated execution
};

extern bool g_record;
extern bool g_trace_ops;
extern FILE *g_trace_file; // where the per-op trace lines of replay mode go (the worker protocol stream)
RunResult run_plan(const plan::Plan &p, uint64_t garbage_salt = 0);
// run_plan, and for plans with garbage_differential a second execution under different garbage fills
// whose per-op outputs must be identical (uninitialised-read oracle)
RunResult run_plan_checked(const plan::Plan &p);
js::Value result_json(const RunResult &r, bool with_detail);
bool init(std::string &err); // oracle tables + self-check
} // namespace exec
