// Thin C-style API over the goldilocks library.  shim.cpp is compiled exactly like a repo
// translation unit (same instrumentation, same objcopy redirection) so that header-inline
// library code (constructor, destructor, computeR, wrappers) is simulated like the rest.
// The harness proper never includes a repo header.
#pragma once
#include <cstdint>

namespace shim
{
enum MerkleVariant
{
    MK_SEQ = 0,
    MK_AVX = 1,
    MK_BATCH_SEQ = 2,
    MK_BATCH_AVX = 3,
    MK_WRAPPER = 4,       // PoseidonGoldilocks::merkletree (AVX512 when built with __AVX512__)
    MK_BATCH_WRAPPER = 5, // PoseidonGoldilocks::merkletree_batch
    MK_AVX512 = 6,
    MK_BATCH_AVX512 = 7,
    MK_NVARIANTS = 8
};

bool built_with_avx512();

void *ntt_new(uint64_t maxDomainSize, uint32_t nThreads, int extension);
void ntt_delete(void *o);
void ntt_NTT(void *o, uint64_t *dst, uint64_t *src, uint64_t size, uint64_t ncols, uint64_t *buffer, uint64_t nphase, uint64_t nblock);
void ntt_INTT(void *o, uint64_t *dst, uint64_t *src, uint64_t size, uint64_t ncols, uint64_t *buffer, uint64_t nphase, uint64_t nblock);
// the public inverse switch of NTT(): NTT(dst, src, size, ncols, buffer, nphase, nblock, /*inverse=*/true)
void ntt_NTT_inverse(void *o, uint64_t *dst, uint64_t *src, uint64_t size, uint64_t ncols, uint64_t *buffer, uint64_t nphase, uint64_t nblock);
void ntt_extendPol(void *o, uint64_t *output, uint64_t *input, uint64_t N_Extended, uint64_t N, uint64_t ncols, uint64_t *buffer, uint64_t nphase, uint64_t nblock);

// returns false when the variant does not exist in this build
bool merkle(int variant, uint64_t *tree, uint64_t *input, uint64_t num_cols, uint64_t num_rows, uint64_t batch_size, int nThreads, uint64_t dim);
uint64_t tree_num_elements(uint64_t rows);
void tree_root(uint64_t *root4, uint64_t *tree, uint64_t numElementsTree);

void parcpy(uint64_t *dst, const uint64_t *src, uint64_t size, int nthreads);
void parsetzero(uint64_t *dst, uint64_t size, int nthreads);

// Poseidon constant tables of the library (the reference permutation is written against these)
const uint64_t *poseidon_C(); // 118 round constants
const uint64_t *poseidon_S(); // 507 sparse-matrix constants
const uint64_t *poseidon_M(); // 12x12
const uint64_t *poseidon_P(); // 12x12
void hash_full_result_seq(uint64_t *state12, const uint64_t *input12);
} // namespace shim
