// Reference models (oracles).  Harness code: not instrumented, independent of the library's
// algorithms, all field arithmetic through unsigned __int128 % p.
#pragma once
#include <cstdint>
#include <vector>
#include <string>

namespace oracle
{
static const uint64_t P = 0xFFFFFFFF00000001ULL;
typedef unsigned __int128 u128;

static inline uint64_t red(uint64_t a) { return a >= P ? a - P : a; }
static inline uint64_t add(uint64_t a, uint64_t b) { return (uint64_t)(((u128)red(a) + red(b)) % P); }
static inline uint64_t sub(uint64_t a, uint64_t b) { return (uint64_t)(((u128)red(a) + P - red(b)) % P); }
static inline uint64_t mul(uint64_t a, uint64_t b) { return (uint64_t)(((u128)red(a) * red(b)) % P); }
uint64_t pw(uint64_t b, uint64_t e);
uint64_t inv(uint64_t a);

// primitive 2^k-th root of unity used by the library (k = 0..32): own table, derived by repeated
// squaring from w_32 = 7277203076849721926 and validated at start-up
uint64_t root_of_unity(unsigned k);

// matrices are row-major: m[row * ncols + col]
// forward DFT of every column: out[k][c] = sum_j in[j][c] * w_n^(j*k)
void dft(std::vector<uint64_t> &out, const std::vector<uint64_t> &in, uint64_t n, uint64_t ncols);
// inverse: out[k][c] = n^-1 sum_j in[j][c] * w_n^(-j*k)
void idft(std::vector<uint64_t> &out, const std::vector<uint64_t> &in, uint64_t n, uint64_t ncols);
// naive O(n^2) forms (used for self-checks and for small n)
void dft_naive(std::vector<uint64_t> &out, const std::vector<uint64_t> &in, uint64_t n, uint64_t ncols, bool inverse);
// low-degree extension: in is N x ncols (values on w_N^j), out is Next x ncols (values on 7*w_Next^k)
void lde(std::vector<uint64_t> &out, const std::vector<uint64_t> &in, uint64_t N, uint64_t Next, uint64_t ncols);
// Horner evaluation of column c of coefficient matrix at x
uint64_t horner(const std::vector<uint64_t> &coef, uint64_t n, uint64_t ncols, uint64_t c, uint64_t x);

// Poseidon over the library's constant tables
void set_poseidon_tables(const uint64_t *C, const uint64_t *S, const uint64_t *M, const uint64_t *P);
void poseidon(uint64_t state[12]);                                      // full-result permutation in place
void linear_hash(uint64_t out[4], const uint64_t *in, uint64_t size);   // sponge of C07
// tree of C08: row digests, then levels; dim multiplies the row length
void merkle_tree(std::vector<uint64_t> &tree, const std::vector<uint64_t> &input, uint64_t cols, uint64_t rows, uint64_t dim);
void merkle_tree_batch(std::vector<uint64_t> &tree, const std::vector<uint64_t> &input, uint64_t cols, uint64_t rows, uint64_t batch, uint64_t dim);

// start-up validation of the oracles themselves; returns "" when fine
std::string selfcheck();
} // namespace oracle
