// Interface of the simulated OpenMP runtime / race detector / heap layer (simomp.cpp,
// shadow.cpp, heap.cpp) towards the harness (exec.cpp, main.cpp).
#pragma once
#include <cstdint>
#include <cstddef>
#include <string>
#include <vector>
#include <array>

namespace sim
{

enum Strategy
{
    ST_SERIAL_IDENTITY = 0, // members run to completion in index order (fault-free configuration)
    ST_SERIAL_PERM = 1,     // members run to completion in a seeded permutation
    ST_RANDOM_WALK = 2,     // switch at an instrumented access with probability 2^-p_log
    ST_PCT = 3,             // PCT priorities with d-1 change points
    ST_REPLAY = 4           // explicit switch list
};

// One scheduling decision: in region `region` (0-based within the op), when member `member`
// has executed `at` preemption points (at == -1: when it finishes; member == -1: initial pick)
// control goes to member `next`.
struct Switch
{
    int32_t region;
    int32_t member;
    int64_t at;
    int32_t next;
};

struct MachineConfig
{
    int nthreads_var = 4;  // initial nthreads-var ICV ("cores of the simulated machine")
    int thread_limit = 64; // thread-limit-var
    bool dyn = false;      // dyn-var
};

// Per-op simulation parameters (faults are attributes of the op they hit).
struct OpSim
{
    int strategy = ST_SERIAL_IDENTITY;
    int p_log = 5;            // random walk: switch probability 2^-p_log
    int pct_d = 2;            // pct depth
    uint64_t sched_seed = 1;  // stream seed for scheduling decisions
    bool force_single = false; // deliver a team of one member whatever is requested (reference run)
    bool shortfall = false;    // fault team_shortfall: deliver fewer members than requested
    bool dirty_heap = false;   // fault dirty_heap: seeded garbage in fresh blocks (else zero)
    uint64_t garbage_seed = 0;
    uint64_t step_estimate = 0; // steps of the one-member execution (for pct change points)
    uint64_t step_limit = 0;    // 0 = none; exceeding it is outcome no-progress
    bool detect_races = true;
    bool record_schedule = false;
    std::vector<Switch> replay; // for ST_REPLAY
};

struct RaceReport
{
    bool found = false;
    int region = -1;
    int member_a = -1, member_b = -1; // a = earlier access, b = current access
    bool write_a = false, write_b = false;
    uint32_t pc_a = 0, pc_b = 0; // text addresses (binary is linked -no-pie)
    std::string where;           // "<block name>+<byte offset>"
    int team = 0;
};

struct OpStats
{
    int regions = 0;
    std::vector<int> teams;     // delivered team size per region
    std::vector<int> requested; // requested team size per region
    uint64_t steps = 0;         // preemption points executed inside regions (all members)
    uint64_t serial_steps = 0;  // instrumented accesses outside regions
    uint64_t switches = 0;      // real switches (another member ran in between)
    uint64_t sched_hash = 0;    // FNV hash over all decisions
    uint64_t max_concurrent = 0; // max number of members started-but-unfinished at the same time
    int shortfall_fired = 0;    // regions with delivered < requested because of the fault
    int limit_capped = 0;       // regions capped by thread-limit
    int excess_regions = 0;     // regions with more members than loop iterations can use (idle members)
    int stalls = 0;             // pct: a started member was demoted until others ran
    int nested_regions = 0;
    bool no_progress = false;
    bool deadlock = false;
    RaceReport race;
    std::vector<std::string> stray;      // canary damage / mismatched free / bad free found by heap layer
    std::vector<std::string> oob;        // accesses to redzones / freed blocks seen by the access seam
    std::vector<Switch> recorded;        // when record_schedule
    bool recorded_truncated = false;
    uint64_t heap_blocks = 0;            // blocks handed to repo code during the op
    uint64_t icv_sets = 0;               // omp_set_num_threads/dynamic calls issued by repo code
};

void init();                                  // once per process
void set_machine(const MachineConfig &m);     // at start of a run: resets ICVs
void host_set_icv(int nthreads, int dyn, int limit); // host application perturbs ICVs (-1 = leave)
int icv_nthreads();
struct IcvState
{
    int nthreads_var, thread_limit;
    bool dyn;
    int run_sched_kind = 0, run_sched_chunk = 0;
};
IcvState icv_save();
void icv_restore(const IcvState &s);
void begin_op(const OpSim &cfg);
OpStats end_op();

// Harness buffers live in the simulated heap (tsh flavours: deterministic arena with redzones and a
// poison map; ASan flavour: ASan's allocator, exact size).  Reports never print raw addresses.
void *buf_alloc(size_t bytes, const char *name, bool garbage, uint64_t garbage_seed);
void buf_free(void *p);
bool buf_check(const void *p, std::string &what); // canaries around the buffer intact?
std::string describe_addr(uintptr_t a);

// heap layer statistics
size_t live_repo_blocks();
// members >= 1 run with their own TLS block (thread_local / threadprivate objects are per member)
bool member_tls_enabled();

// called when a run cannot continue (step budget exceeded = "no-progress", deadlock): the hook
// prints the run's result line; the process then exits with status 3 (it is poisoned).
extern void (*g_fatal_hook)(const char *what);

extern bool g_asan_flavour;

} // namespace sim
