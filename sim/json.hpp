// Minimal JSON value / parser / writer (integers only, full uint64 and int64 range).
#pragma once
#include <cstdint>
#include <string>
#include <vector>
#include <map>
#include <stdexcept>
#include <cstdio>

namespace js
{
struct Value
{
    enum T
    {
        NUL,
        BOOL,
        INT,
        STR,
        ARR,
        OBJ
    } t = NUL;
    bool b = false;
    bool neg = false;
    uint64_t u = 0; // magnitude
    std::string s;
    std::vector<Value> a;
    std::vector<std::pair<std::string, Value>> o; // insertion order kept: output is deterministic

    Value() {}
    static Value Bool(bool v)
    {
        Value x;
        x.t = BOOL;
        x.b = v;
        return x;
    }
    static Value U(uint64_t v)
    {
        Value x;
        x.t = INT;
        x.u = v;
        return x;
    }
    static Value I(int64_t v)
    {
        Value x;
        x.t = INT;
        if (v < 0)
        {
            x.neg = true;
            x.u = (uint64_t)(-(v + 1)) + 1;
        }
        else
            x.u = (uint64_t)v;
        return x;
    }
    static Value S(const std::string &v)
    {
        Value x;
        x.t = STR;
        x.s = v;
        return x;
    }
    static Value Arr()
    {
        Value x;
        x.t = ARR;
        return x;
    }
    static Value Obj()
    {
        Value x;
        x.t = OBJ;
        return x;
    }
    Value &set(const std::string &k, const Value &v)
    {
        for (auto &kv : o)
            if (kv.first == k)
            {
                kv.second = v;
                return *this;
            }
        o.push_back({k, v});
        return *this;
    }
    Value &push(const Value &v)
    {
        a.push_back(v);
        return *this;
    }
    const Value *find(const std::string &k) const
    {
        for (auto &kv : o)
            if (kv.first == k)
                return &kv.second;
        return nullptr;
    }
    bool has(const std::string &k) const { return find(k) != nullptr; }
    uint64_t getu(const std::string &k, uint64_t def = 0) const
    {
        const Value *v = find(k);
        if (!v)
            return def;
        if (v->t == BOOL)
            return v->b;
        return v->neg ? (uint64_t)(-(int64_t)v->u) : v->u;
    }
    int64_t geti(const std::string &k, int64_t def = 0) const
    {
        const Value *v = find(k);
        if (!v)
            return def;
        if (v->t == BOOL)
            return v->b;
        return v->neg ? -(int64_t)v->u : (int64_t)v->u;
    }
    int64_t asi() const { return neg ? -(int64_t)u : (int64_t)u; }
    bool getb(const std::string &k, bool def = false) const
    {
        const Value *v = find(k);
        if (!v)
            return def;
        if (v->t == BOOL)
            return v->b;
        return v->u != 0;
    }
    std::string gets(const std::string &k, const std::string &def = "") const
    {
        const Value *v = find(k);
        return v && v->t == STR ? v->s : def;
    }

    void write(std::string &out) const
    {
        char buf[40];
        switch (t)
        {
        case NUL:
            out += "null";
            break;
        case BOOL:
            out += b ? "true" : "false";
            break;
        case INT:
            snprintf(buf, sizeof buf, "%s%llu", neg ? "-" : "", (unsigned long long)u);
            out += buf;
            break;
        case STR:
            out += '"';
            for (char c : s)
            {
                if (c == '"' || c == '\\')
                {
                    out += '\\';
                    out += c;
                }
                else if (c == '\n')
                    out += "\\n";
                else if ((unsigned char)c < 0x20)
                {
                    snprintf(buf, sizeof buf, "\\u%04x", c);
                    out += buf;
                }
                else
                    out += c;
            }
            out += '"';
            break;
        case ARR:
            out += '[';
            for (size_t i = 0; i < a.size(); i++)
            {
                if (i)
                    out += ',';
                a[i].write(out);
            }
            out += ']';
            break;
        case OBJ:
            out += '{';
            for (size_t i = 0; i < o.size(); i++)
            {
                if (i)
                    out += ',';
                Value::S(o[i].first).write(out);
                out += ':';
                o[i].second.write(out);
            }
            out += '}';
            break;
        }
    }
    std::string str() const
    {
        std::string r;
        write(r);
        return r;
    }
};

struct Parser
{
    const std::string &s;
    size_t i = 0;
    explicit Parser(const std::string &str) : s(str) {}
    void ws()
    {
        while (i < s.size() && (s[i] == ' ' || s[i] == '\n' || s[i] == '\t' || s[i] == '\r'))
            i++;
    }
    [[noreturn]] void fail(const char *m) { throw std::runtime_error(std::string("json: ") + m + " at " + std::to_string(i)); }
    Value parse()
    {
        ws();
        if (i >= s.size())
            fail("eof");
        char c = s[i];
        if (c == '{')
        {
            Value v = Value::Obj();
            i++;
            ws();
            if (s[i] == '}')
            {
                i++;
                return v;
            }
            for (;;)
            {
                ws();
                Value k = parse();
                if (k.t != Value::STR)
                    fail("key");
                ws();
                if (s[i] != ':')
                    fail(":");
                i++;
                v.o.push_back({k.s, parse()});
                ws();
                if (s[i] == ',')
                {
                    i++;
                    continue;
                }
                if (s[i] == '}')
                {
                    i++;
                    return v;
                }
                fail("obj");
            }
        }
        if (c == '[')
        {
            Value v = Value::Arr();
            i++;
            ws();
            if (s[i] == ']')
            {
                i++;
                return v;
            }
            for (;;)
            {
                v.a.push_back(parse());
                ws();
                if (s[i] == ',')
                {
                    i++;
                    continue;
                }
                if (s[i] == ']')
                {
                    i++;
                    return v;
                }
                fail("arr");
            }
        }
        if (c == '"')
        {
            Value v;
            v.t = Value::STR;
            i++;
            while (i < s.size() && s[i] != '"')
            {
                if (s[i] == '\\')
                {
                    i++;
                    if (s[i] == 'n')
                        v.s += '\n';
                    else if (s[i] == 't')
                        v.s += '\t';
                    else if (s[i] == 'u')
                    {
                        v.s += '?';
                        i += 4;
                    }
                    else
                        v.s += s[i];
                    i++;
                }
                else
                    v.s += s[i++];
            }
            i++;
            return v;
        }
        if (s.compare(i, 4, "true") == 0)
        {
            i += 4;
            return Value::Bool(true);
        }
        if (s.compare(i, 5, "false") == 0)
        {
            i += 5;
            return Value::Bool(false);
        }
        if (s.compare(i, 4, "null") == 0)
        {
            i += 4;
            return Value();
        }
        if (c == '-' || (c >= '0' && c <= '9'))
        {
            Value v;
            v.t = Value::INT;
            if (c == '-')
            {
                v.neg = true;
                i++;
            }
            uint64_t u = 0;
            while (i < s.size() && s[i] >= '0' && s[i] <= '9')
                u = u * 10 + (uint64_t)(s[i++] - '0');
            if (i < s.size() && (s[i] == '.' || s[i] == 'e' || s[i] == 'E'))
                fail("non-integer number");
            v.u = u;
            return v;
        }
        fail("unexpected character");
    }
};

static inline Value parse(const std::string &s)
{
    Parser p(s);
    return p.parse();
}
} // namespace js
