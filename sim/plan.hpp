// Plan = simulated machine + 1..N ops; every op carries its own faults and schedule parameters
// (faults are attributes of the op they hit, so shrinking keeps them aligned).
#pragma once
#include "sim.hpp"
#include "json.hpp"
#include "rng.hpp"
#include <string>
#include <vector>

namespace plan
{
enum Kind
{
    K_NTT,
    K_INTT,
    K_ROUNDTRIP,
    K_EXTEND,
    K_MERKLE,
    K_PARCPY,
    K_PARSETZERO,
    K_HOST_ICV,
    K_DELETE_OBJECT,
    K_MERKLE_XCHECK, // bulk cross-backend agreement of the tree builders on one large input (plain flavour, thorough C08)
    K_COPY_BIG, // parcpy / parSetZero over >= 2^20 elements of mmap'ed caller memory (private or shared mapping), plain flavour, thorough C17
    K_NKINDS
};
const char *kind_name(int k);
int kind_from(const std::string &s);

enum Dst
{
    D_SRC = 0,   // dst == src (in place)
    D_OTHER = 1, // distinct destination
    D_NULL = 2   // NULL destination (documented as "in place")
};
enum InputKind
{
    IN_RAND = 0,   // random canonical elements
    IN_RAND64 = 1, // random 64-bit words (non-canonical representations included)
    IN_UNIT = 2,   // unit vectors (a basis)
    IN_SMALL = 3,  // small integers
    IN_EDGE = 4,   // 0, 1, p-1, p, p+1, 2^64-1, 2^32-1, 2^32
    IN_NKINDS
};

struct Op
{
    int kind = K_NTT;
    // transform ops
    int obj = 0;            // object slot; -1 = a fresh object just for this op
    uint64_t maxn = 1;      // maxDomainSize of the slot's object (used when the slot is empty)
    uint32_t obj_threads = 1; // constructor nThreads (0 = ambient)
    int extension = 1;        // constructor extension (NTT/INTT only): rows >= n/extension of the input count as zero
    uint64_t n = 1;         // size (NTT/INTT/ROUNDTRIP), N (EXTEND); 0 allowed for NTT/INTT
    uint64_t n_ext = 1;     // EXTEND only
    uint64_t ncols = 1;
    uint64_t nphase = 3, nblock = 1;
    bool buffer = false;
    int dst = D_OTHER;
    // ROUNDTRIP: second call
    bool inverse_first = false;
    uint64_t nphase2 = 3, nblock2 = 1;
    bool buffer2 = false;
    int dst2 = D_OTHER;
    bool inv_via_ntt = false; // inverse requested through NTT(..., inverse = true) instead of INTT()
    int input = IN_RAND;
    uint64_t input_seed = 1;
    // merkle
    int variant = 0;
    uint64_t rows = 1, cols = 1, dim = 1, batch = 1;
    int nthreads = 1;
    // parcpy / parsetzero
    uint64_t size = 0;
    int threads = 1;
    // host icv
    int icv_nthreads = -1, icv_dyn = -1, icv_limit = -1;
    // simulation parameters / faults attached to this op
    int strategy = sim::ST_SERIAL_IDENTITY;
    int p_log = 5;
    int pct_d = 2;
    uint64_t sched_seed = 1;
    bool shortfall = false;
    bool dirty_heap = false;
    bool dirty_bufs = false;
    bool misaligned_bufs = false; // caller buffers aligned to 8 bytes only (8 mod 16)
    bool adjacent_bufs = false;   // source, destination and scratch carved out of one allocation (they touch)
    int host_team = 0;            // > 1: the call is made by every member of an application parallel region of that size, each on its own buffers (MERKLE, PARCPY, PARSETZERO)
    bool main_first = false; // simulated execution before the one-member reference (cold-start runs)
    uint64_t garbage_seed = 0;
    bool big_zero = false, big_shared = false; // K_COPY_BIG: parSetZero instead of parcpy; caller memory is a MAP_SHARED mapping
    std::vector<sim::Switch> schedule; // explicit (ST_REPLAY)
    std::vector<sim::Switch> schedule2; // explicit decisions of the op's second simulated execution (transform called from an application region)

    js::Value to_json() const;
    static Op from_json(const js::Value &v);
};

struct Plan
{
    std::string profile;
    uint64_t seed = 0;
    sim::MachineConfig machine;
    bool fault_free = false;
    bool garbage_differential = false; // execute twice under different garbage fills; outputs must agree (C18)
    std::vector<Op> ops;
    js::Value to_json() const;
    static Plan from_json(const js::Value &v);
};

struct GenLimits
{
    unsigned maxlog = 7;       // transforms: sizes up to 2^maxlog
    unsigned maxlog_tree = 5;  // trees: rows up to 2^maxlog_tree
    uint64_t max_copy = 5000;
    bool avx512 = false;       // build has the AVX-512 variants
    bool coarse = false;       // ASan flavour: only coarse scheduling exists
    bool huge = false;         // thorough tier: one op in ~300 is far beyond the usual size bounds (2^13..2^16 rows, trees of 2^9..2^11 rows)
    bool cold = false;         // cold-start run: one run per process, simulated execution before the reference
};

// profile is the property id ("C03", ...); everything is drawn from `seed`
Plan generate(const std::string &profile, uint64_t seed, const GenLimits &lim);
} // namespace plan
