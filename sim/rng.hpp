// The single PRNG of the simulator.  Every choice of a run (plan, faults, schedule, garbage)
// is drawn from streams derived from one 64-bit run seed; logging never draws.
#pragma once
#include <cstdint>

static inline uint64_t splitmix64(uint64_t &x)
{
    uint64_t z = (x += 0x9e3779b97f4a7c15ULL);
    z = (z ^ (z >> 30)) * 0xbf58476d1ce4e5b9ULL;
    z = (z ^ (z >> 27)) * 0x94d049bb133111ebULL;
    return z ^ (z >> 31);
}

// Stateless mix used to derive independent stream seeds: derive(seed, tag)
static inline uint64_t derive_seed(uint64_t seed, uint64_t tag)
{
    uint64_t x = seed ^ (tag * 0xd6e8feb86659fd93ULL + 0x2545f4914f6cdd1dULL);
    splitmix64(x);
    return splitmix64(x);
}

struct Rng
{
    uint64_t s[4];
    explicit Rng(uint64_t seed = 1) { reseed(seed); }
    void reseed(uint64_t seed)
    {
        uint64_t x = seed;
        for (int i = 0; i < 4; i++)
            s[i] = splitmix64(x);
    }
    static inline uint64_t rotl(uint64_t x, int k) { return (x << k) | (x >> (64 - k)); }
    uint64_t next()
    {
        const uint64_t result = rotl(s[1] * 5, 7) * 9;
        const uint64_t t = s[1] << 17;
        s[2] ^= s[0];
        s[3] ^= s[1];
        s[1] ^= s[2];
        s[0] ^= s[3];
        s[2] ^= t;
        s[3] = rotl(s[3], 45);
        return result;
    }
    // uniform in [0, n)  (n > 0); slight modulo bias is irrelevant here and keeps it branch-free
    uint64_t below(uint64_t n) { return (uint64_t)(((unsigned __int128)next() * n) >> 64); }
    // uniform in [lo, hi]
    uint64_t range(uint64_t lo, uint64_t hi) { return lo + below(hi - lo + 1); }
    bool chance(uint64_t num, uint64_t den) { return below(den) < num; }
    template <class T, unsigned long N>
    T pick(const T (&arr)[N]) { return arr[below(N)]; }
};
