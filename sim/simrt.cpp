// simrt: the simulated OpenMP runtime, the seeded scheduler, the happens-before race detector
// and the heap layer.  Linked INSTEAD of libgomp.  Single OS thread; team members are fibers.
//
// Seams (all link-time):
//   GOMP_parallel / omp_*            <- calls emitted by g++ -fopenmp in the repo objects
//   __tsan_read*/write*/..           <- calls emitted by g++ -fsanitize=thread (compile-only)
//   simw_memcpy/memset/memmove       <- mem* of the repo objects, renamed with objcopy
//   simw_malloc/free/_Znam/...       <- allocation of the repo objects, renamed with objcopy
#include "sim.hpp"
#include "rng.hpp"
#include <cstdio>
#include <cstdlib>
#include <cstring>
#include <cmath>
#include <map>
#include <algorithm>
#include <sys/mman.h>
#include <unistd.h>
#include <dlfcn.h>
#include <sys/syscall.h>
#include <sys/auxv.h>
#include <asm/prctl.h>

#ifdef SIM_ASAN
#include <sanitizer/common_interface_defs.h>
#endif
#ifdef SIM_PLAIN
#include <valgrind/valgrind.h>
#include <valgrind/memcheck.h>
#endif

extern "C" char __executable_start, end; // linker-provided bounds of the (non-PIE) image

namespace sim
{
bool g_asan_flavour =
#if defined(SIM_ASAN) || defined(SIM_PLAIN)
    true; // coarse flavours: no access-level seam, the sanitizer / valgrind is the detector
#else
    false;
#endif

void (*g_fatal_hook)(const char *what) = nullptr;

[[noreturn]] static void fatal(const char *what)
{
    if (g_fatal_hook)
        g_fatal_hook(what);
    fprintf(stderr, "SIM-FATAL %s\n", what);
    fflush(stderr);
    _exit(3);
}

// ---------------------------------------------------------------------------------------------
// fibers: minimal x86-64 SysV context switch (callee-saved registers + mxcsr + x87 cw)
// ---------------------------------------------------------------------------------------------
extern "C" void sim_ctx_switch(void **save_sp, void *load_sp);
asm(R"(
.text
.globl sim_ctx_switch
.type sim_ctx_switch,@function
sim_ctx_switch:
    pushq %rbp
    pushq %rbx
    pushq %r12
    pushq %r13
    pushq %r14
    pushq %r15
    subq $8, %rsp
    stmxcsr (%rsp)
    fnstcw 4(%rsp)
    movq %rsp, (%rdi)
    movq %rsi, %rsp
    ldmxcsr (%rsp)
    fldcw 4(%rsp)
    addq $8, %rsp
    popq %r15
    popq %r14
    popq %r13
    popq %r12
    popq %rbx
    popq %rbp
    ret
.size sim_ctx_switch,.-sim_ctx_switch
)");

static const int MAXT = 128;
static const size_t STACK_BYTES = 8 * 1024 * 1024; // like the default stack of a pooled OpenMP worker thread (virtual, MAP_NORESERVE)
static const size_t GUARD_BYTES = 16 * 1024;

enum MState
{
    M_NEW,
    M_RUN,
    M_WAIT_BARRIER,
    M_WAIT_LOCK,
    M_DONE
};

struct Member
{
    int idx;
    void *sp;
    char *stack_lo; // usable stack [stack_lo, stack_lo+STACK_BYTES)
    MState st;
    int64_t local;    // preemption points executed by this member in this region
    uint32_t vc[MAXT]; // vector clock
    void *wait_lock;
    void *fake_stack; // asan
    int nest;         // depth of nested (inline, team-of-one) regions this member is in
    void *tcb;        // thread control block / TLS of this member (nullptr: shares the encountering thread's)
    int ws_count;     // work-sharing constructs entered in this region
    int ws_cur;       // index of the work-share the member is in
};

// ---------------------------------------------------------------------------------------------
// Per-member thread-local storage.  Team members are fibers of one OS thread, so without further ado every
// `thread_local` / `#pragma omp threadprivate` object of the code under test would be shared by all members
// (false races, scratch data clobbered across preemptions).  Members >= 1 therefore get their own TLS block
// (allocated like pthread_create does, with ld.so's _dl_allocate_tls) and the FS base is switched together
// with the stack; member 0 is the encountering thread, as in OpenMP, and keeps its TLS.  Blocks persist for
// the life of the process, like the TLS of a runtime's pooled worker threads.  tsh flavours only: ASan and
// valgrind keep per-thread state of their own behind FS.
// ---------------------------------------------------------------------------------------------
#if !defined(SIM_ASAN) && !defined(SIM_PLAIN)
#define SIM_MEMBER_TLS 1
static void *(*p_dl_allocate_tls)(void *) = nullptr;
static void *g_main_tcb = nullptr;
static void *g_cur_fs = nullptr;
static bool g_member_tls = false;
static bool g_wrfsbase = false;
static long g_tid_offset = -1;

static inline void set_fs(void *tcb)
{
    if (tcb == g_cur_fs)
        return;
    g_cur_fs = tcb;
    if (g_wrfsbase)
        asm volatile("wrfsbase %0" ::"r"(tcb) : "memory");
    else
        syscall(SYS_arch_prctl, ARCH_SET_FS, tcb);
}
static void tls_init()
{
    p_dl_allocate_tls = (void *(*)(void *))dlsym(RTLD_DEFAULT, "_dl_allocate_tls");
    if (syscall(SYS_arch_prctl, ARCH_GET_FS, &g_main_tcb) != 0 || !p_dl_allocate_tls || !g_main_tcb)
        return;
    g_cur_fs = g_main_tcb;
#ifndef HWCAP2_FSGSBASE
#define HWCAP2_FSGSBASE (1 << 1)
#endif
    g_wrfsbase = (getauxval(AT_HWCAP2) & HWCAP2_FSGSBASE) != 0;
    // the kernel thread id sits somewhere in struct pthread; abort()/raise() of a member needs it
    int tid = (int)syscall(SYS_gettid);
    for (long off = 0x40; off < 0x800; off += 4)
        if (*(int *)((char *)g_main_tcb + off) == tid)
        {
            g_tid_offset = off;
            break;
        }
    g_member_tls = true;
}
static void *tls_new_block()
{
    void *tcb = p_dl_allocate_tls(nullptr);
    if (!tcb)
        return nullptr;
    uintptr_t *h = (uintptr_t *)tcb, *mh = (uintptr_t *)g_main_tcb;
    h[0] = (uintptr_t)tcb; // tcbhead_t.tcb
    h[2] = (uintptr_t)tcb; // tcbhead_t.self
    h[3] = mh[3];          // multiple_threads / gscope_flag
    h[4] = mh[4];          // sysinfo
    h[5] = mh[5];          // stack_guard   (%fs:0x28)
    h[6] = mh[6];          // pointer_guard (%fs:0x30)
    if (g_tid_offset > 0)
        *(int *)((char *)tcb + g_tid_offset) = *(int *)((char *)g_main_tcb + g_tid_offset);
    return tcb;
}
#endif

static char *g_stack_pool = nullptr;
#ifdef SIM_ASAN
static const void *g_main_stack_bottom = nullptr;
static size_t g_main_stack_size = 0;
#endif
static Member g_members[MAXT];

// ---------------------------------------------------------------------------------------------
// global simulator state
// ---------------------------------------------------------------------------------------------
static MachineConfig g_machine;
static int icv_nthreads_var = 4;
static bool icv_dyn = false;
static int icv_thread_limit = 64;
static int icv_run_sched_kind = 0; // run-sched-var: 0 = not set (implementation defined: dynamic,1 is used), 1 static, 2 dynamic, 3 guided, 4 auto
static int icv_run_sched_chunk = 0;

static OpSim g_cfg;
static OpStats g_stats;
static bool g_op_active = false;
static Rng g_sched_rng(1);
static Rng g_team_rng(1); // separate stream: delivered team sizes do not depend on the strategy

// region state
static bool g_in_region = false; // a multi-member or single-member region is executing
static int g_T = 0;
static Member *g_cur = nullptr;
static void *g_sched_sp = nullptr; // context of the thread that called GOMP_parallel
static void (*g_fn)(void *) = nullptr;
static void *g_data = nullptr;
static int g_region_idx = -1; // index of the region within the op
static int64_t g_countdown = INT64_MAX;
static int g_next = -1; // member chosen by the yielding member
static bool g_blocking_yield = false; // the yield in progress is a barrier / lock wait, not a preemption
static uint64_t g_steps_total = 0; // steps in regions, whole op
static uint64_t g_step_limit = 0;
static uint64_t g_serial_steps = 0;
static bool g_detect = false;
static uint32_t g_epoch = 1;
static int g_nest_serial = 0; // nesting depth outside any region (always 0 in practice)
// the nesting depth belongs to the member that opened the nested region: another member, scheduled while this one is
// inside its nested (team-of-one) region, is still at level 1
#define g_nest (*(g_cur ? &g_cur->nest : &g_nest_serial))

// pct state
static int g_prio[MAXT];
static int g_low_prio = 0;
static std::vector<uint64_t> g_change_points; // global step indices (whole op), sorted
static size_t g_cp_next = 0;
// serial-perm state
static int g_perm[MAXT];
static int g_perm_pos = 0;
// replay state
static size_t g_rp_next = 0;

static inline void hash_mix(uint64_t v)
{
    uint64_t h = g_stats.sched_hash;
    for (int i = 0; i < 8; i++)
    {
        h ^= (v >> (8 * i)) & 0xff;
        h *= 0x100000001b3ULL;
    }
    g_stats.sched_hash = h;
}

static void record_decision(int prev, int64_t at, int next)
{
    hash_mix((uint64_t)g_region_idx);
    hash_mix((uint64_t)(int64_t)prev);
    hash_mix((uint64_t)at);
    hash_mix((uint64_t)next);
    if (g_cfg.record_schedule)
    {
        if (g_stats.recorded.size() < 400000)
            g_stats.recorded.push_back(Switch{g_region_idx, prev, at, next});
        else
            g_stats.recorded_truncated = true;
    }
}

std::string describe_addr(uintptr_t a);

// ---------------------------------------------------------------------------------------------
// heap layer: a deterministic arena.  Every block the repo code allocates (tsh flavours) and
// every harness buffer lives here: bump allocation, never reused within a run, reset at the
// start of each run.  Layout and contents are therefore a pure function of the run, so even an
// out-of-bounds or use-after-free access of the library yields the same values in every process
// (replay stays exact), and a poison map (1 byte per 8-byte granule, like ASan's shadow) lets the
// access seam report such accesses directly.  In the ASan flavour harness buffers come from
// ASan's own allocator (exact size) and repo allocations are not redirected.
// ---------------------------------------------------------------------------------------------
enum AllocKind
{
    AK_MALLOC,
    AK_NEW,
    AK_NEW_ARR,
    AK_HARNESS
};
struct Block
{
    uintptr_t user;
    size_t size;
    size_t rz;
    AllocKind kind;
    uint64_t serial;
    bool freed;
    std::string name;
};
static std::vector<Block> g_all;               // in address order (bump allocation)
static std::map<uintptr_t, size_t> g_blocks;   // live blocks: user pointer -> index in g_all
static uint64_t g_block_serial = 0;
static char *g_arena = nullptr;
static uint8_t *g_poison = nullptr;
static const size_t ARENA_BYTES = (size_t)16 << 30;
static size_t g_bump = 0;
enum
{
    PZ_OK = 0,
    PZ_REDZONE = 1,
    PZ_FREED = 2
};

bool member_tls_enabled()
{
#ifdef SIM_MEMBER_TLS
    return g_member_tls;
#else
    return false;
#endif
}

size_t live_repo_blocks()
{
    size_t n = 0;
    for (auto &kv : g_blocks)
        if (g_all[kv.second].kind != AK_HARNESS)
            n++;
    return n;
}

static void shadow_clear_range(uintptr_t lo, uintptr_t hi);

static void arena_init()
{
    g_arena = (char *)mmap(nullptr, ARENA_BYTES, PROT_READ | PROT_WRITE, MAP_PRIVATE | MAP_ANONYMOUS | MAP_NORESERVE, -1, 0);
    g_poison = (uint8_t *)mmap(nullptr, ARENA_BYTES / 8, PROT_READ | PROT_WRITE, MAP_PRIVATE | MAP_ANONYMOUS | MAP_NORESERVE, -1, 0);
    if (g_arena == MAP_FAILED || g_poison == MAP_FAILED)
        fatal("arena mmap failed");
}
static size_t g_floor = 0; // bytes at the bottom of the arena that hold blocks the code under test keeps across runs

// Start of a run.  Blocks of the repo code that are still live were allocated in an earlier run and kept on
// purpose (a thread_local vector, a table owned by a function-local static, ...): they must survive, so the part
// of the arena up to the highest of them becomes the floor below which nothing is recycled.  The unchanged
// library keeps nothing (floor stays 0 and the layout of every run is identical).
static void arena_reset()
{
    size_t keep = g_floor;
    for (auto &kv : g_blocks)
    {
        const Block &b = g_all[kv.second];
        if (b.kind == AK_HARNESS)
            continue;
        size_t padded = (b.size + 15) & ~(size_t)15;
        size_t end = (size_t)(b.user - (uintptr_t)g_arena) + padded + b.rz;
        keep = std::max(keep, end);
    }
    keep = (keep + 4095) & ~(size_t)4095;
    if (g_bump > keep)
    {
        madvise(g_arena + keep, ((g_bump - keep) + 4095) & ~(size_t)4095, MADV_DONTNEED);
        size_t p0 = (keep / 8 + 4095) & ~(size_t)4095, p1 = (g_bump / 8 + 4096) & ~(size_t)4095;
        if (p1 > p0)
            madvise(g_poison + p0, p1 - p0, MADV_DONTNEED);
        // the partial poison page at the floor: clear by hand
        if (p0 > keep / 8)
            memset(g_poison + keep / 8, 0, std::min(p0, g_bump / 8 + 1) - keep / 8);
    }
    if (keep == 0)
    {
        g_all.clear();
        g_blocks.clear();
    }
    else
    {
        // keep the records of everything below the floor (live or freed), drop the rest
        std::vector<Block> kept;
        std::map<uintptr_t, size_t> live;
        for (size_t i = 0; i < g_all.size(); i++)
            if ((size_t)(g_all[i].user - (uintptr_t)g_arena) < keep)
            {
                if (g_blocks.count(g_all[i].user) && g_blocks[g_all[i].user] == i)
                    live[g_all[i].user] = kept.size();
                kept.push_back(g_all[i]);
            }
        g_all.swap(kept);
        g_blocks.swap(live);
    }
    g_floor = keep;
    g_bump = keep;
    g_block_serial = 0;
}

static size_t redzone_for(size_t size) { return size <= 256 ? 64 : size <= 8192 ? 256 : 1024; }

static void canary_fill(unsigned char *p, size_t n, uint64_t pat)
{
    for (size_t i = 0; i < n; i++)
        p[i] = (unsigned char)((pat >> ((i & 7) * 8)) ^ (i * 37));
}
static bool canary_check(const unsigned char *p, size_t n, uint64_t pat)
{
    for (size_t i = 0; i < n; i++)
        if (p[i] != (unsigned char)((pat >> ((i & 7) * 8)) ^ (i * 37)))
            return false;
    return true;
}

static void *arena_block(size_t size, AllocKind kind, const char *name, bool garbage, uint64_t gseed)
{
    size_t rz = redzone_for(size);
    size_t padded = (size + 15) & ~(size_t)15;
    size_t total = rz + padded + rz;
    if (g_bump + total > ARENA_BYTES)
        fatal("simulated-heap-exhausted");
    unsigned char *raw = (unsigned char *)g_arena + g_bump;
    g_bump += total;
    unsigned char *user = raw + rz;
    Block b;
    b.user = (uintptr_t)user;
    b.size = size;
    b.rz = rz;
    b.kind = kind;
    b.serial = g_block_serial++;
    b.freed = false;
    char nm[64];
    if (name)
        b.name = name;
    else
    {
        snprintf(nm, sizeof nm, "repo-heap-block#%lu(%zuB)", (unsigned long)b.serial, size);
        b.name = nm;
    }
    uint64_t pat = derive_seed(0xC0FFEE, b.serial);
    canary_fill(raw, rz, pat);
    canary_fill(user + size, rz + padded - size, ~pat);
    size_t g0 = (size_t)(raw - (unsigned char *)g_arena) >> 3;
    memset(g_poison + g0, PZ_REDZONE, rz >> 3);
    memset(g_poison + g0 + (rz >> 3), PZ_OK, (size + 7) >> 3);
    size_t tail0 = g0 + (rz >> 3) + ((size + 7) >> 3);
    memset(g_poison + tail0, PZ_REDZONE, g0 + (total >> 3) - tail0);
    if (garbage)
    {
        Rng r(derive_seed(gseed, b.serial + 17));
        size_t i = 0;
        for (; i + 8 <= size; i += 8)
        {
            uint64_t v = r.next();
            memcpy(user + i, &v, 8);
        }
        for (; i < size; i++)
            user[i] = (unsigned char)r.next();
    }
    // (fresh arena pages are zero: the clean configuration needs no fill)
    g_blocks[(uintptr_t)user] = g_all.size();
    g_all.push_back(b);
    return user;
}

static void *heap_alloc(size_t size, AllocKind kind)
{
    if (g_op_active)
        g_stats.heap_blocks++;
    return arena_block(size, kind, nullptr, g_cfg.dirty_heap, g_cfg.garbage_seed);
}

static const char *kind_name(AllocKind k)
{
    return k == AK_MALLOC ? "malloc" : k == AK_NEW ? "operator new" : k == AK_NEW_ARR ? "operator new[]" : "harness";
}

static void block_check_canaries(const Block &b, std::vector<std::string> &out)
{
    uint64_t pat = derive_seed(0xC0FFEE, b.serial);
    size_t padded = (b.size + 15) & ~(size_t)15;
    char msg[240];
    if (!canary_check((unsigned char *)b.user - b.rz, b.rz, pat))
    {
        snprintf(msg, sizeof msg, "stray write: bytes before %s were overwritten", b.name.c_str());
        out.push_back(msg);
    }
    if (!canary_check((unsigned char *)b.user + b.size, b.rz + padded - b.size, ~pat))
    {
        snprintf(msg, sizeof msg, "stray write: bytes after %s (%zu bytes) were overwritten", b.name.c_str(), b.size);
        out.push_back(msg);
    }
}

// returns true if p was one of ours
static bool heap_release(void *p, AllocKind how, const char *how_name)
{
    if (!p)
        return true;
    auto it = g_blocks.find((uintptr_t)p);
    if (it == g_blocks.end())
    {
        uintptr_t off = (uintptr_t)p - (uintptr_t)g_arena;
        if (off < ARENA_BYTES)
        {
            // a pointer into the simulated heap that is not a live block: double free / bad free
            g_stats.stray.push_back(std::string("bad-free: ") + how_name + " of " + describe_addr((uintptr_t)p) + " which is not a live block");
            return true;
        }
        return false;
    }
    Block &b = g_all[it->second];
    block_check_canaries(b, g_stats.stray);
    char msg[240];
    if (b.kind != how && how != AK_HARNESS)
    {
        snprintf(msg, sizeof msg, "mismatched-free: block of %zu bytes from %s released with %s", b.size, kind_name(b.kind), how_name);
        g_stats.stray.push_back(msg);
    }
    // scribble so that use-after-free changes results; never reused within the run
    memset((void *)b.user, 0xDD, b.size);
    size_t g0 = (size_t)(b.user - (uintptr_t)g_arena) >> 3;
    memset(g_poison + g0, PZ_FREED, (b.size + 7) >> 3);
    shadow_clear_range(b.user, b.user + b.size);
    b.freed = true;
    g_blocks.erase(it);
    return true;
}

void *buf_alloc(size_t bytes, const char *name, bool garbage, uint64_t gseed)
{
#if defined(SIM_ASAN) || defined(SIM_PLAIN)
    (void)name;
    unsigned char *p = (unsigned char *)malloc(bytes ? bytes : 1);
    if (garbage)
    {
        Rng r(derive_seed(gseed, 17));
        for (size_t i = 0; i + 8 <= bytes; i += 8)
        {
            uint64_t v = r.next();
            memcpy(p + i, &v, 8);
        }
    }
    else
        memset(p, 0, bytes);
#ifdef SIM_PLAIN
    // under valgrind: deterministic bytes, but "undefined" as far as memcheck is concerned
    if (garbage && bytes)
        VALGRIND_MAKE_MEM_UNDEFINED(p, bytes);
#endif
    return p;
#else
    return arena_block(bytes, AK_HARNESS, name, garbage, gseed);
#endif
}
void buf_free(void *p)
{
#if defined(SIM_ASAN) || defined(SIM_PLAIN)
    free(p);
#else
    std::vector<std::string> saved;
    saved.swap(g_stats.stray); // harness buffers are checked explicitly through buf_check
    heap_release(p, AK_HARNESS, "harness");
    saved.swap(g_stats.stray);
#endif
}
bool buf_check(const void *p, std::string &what)
{
#if defined(SIM_ASAN) || defined(SIM_PLAIN)
    (void)p;
    (void)what;
    return true; // ASan's redzones report the access itself
#else
    auto it = g_blocks.find((uintptr_t)p);
    if (it == g_blocks.end())
        return true;
    std::vector<std::string> out;
    block_check_canaries(g_all[it->second], out);
    if (out.empty())
        return true;
    what = out[0];
    return false;
#endif
}

static void report_poisoned(uintptr_t a, size_t n, bool is_write, uint32_t pc, uint8_t why)
{
    if (g_stats.oob.size() >= 4)
        return;
    char msg[300];
    snprintf(msg, sizeof msg, "%s: %s of %zu bytes at %s (pc 0x%x)", why == PZ_FREED ? "heap-use-after-free" : "heap-buffer-overflow", is_write ? "write" : "read", n, describe_addr(a).c_str(), pc);
    g_stats.oob.push_back(msg);
}

static inline void poison_check(uintptr_t a, size_t n, bool is_write, uint32_t pc)
{
    uintptr_t off = a - (uintptr_t)g_arena;
    if (off >= ARENA_BYTES || n == 0)
        return;
    if (off + n > g_bump)
    {
        report_poisoned(a, n, is_write, pc, PZ_REDZONE);
        return;
    }
    size_t g0 = off >> 3, g1 = (off + n - 1) >> 3;
    if (n <= 16)
    {
        uint8_t v = g_poison[g0] | g_poison[g1];
        if (v)
            report_poisoned(a, n, is_write, pc, v & PZ_FREED ? PZ_FREED : PZ_REDZONE);
        return;
    }
    for (size_t g = g0; g <= g1; g++)
        if (g_poison[g])
        {
            report_poisoned(a + ((g - g0) << 3), n, is_write, pc, g_poison[g]);
            return;
        }
}

// ---------------------------------------------------------------------------------------------
// shadow memory + vector-clock race detector
// ---------------------------------------------------------------------------------------------
struct Acc
{
    uint8_t m;
    uint8_t mask; // 0 = empty
    uint16_t pad;
    uint32_t clk;
    uint32_t pc;
};
struct Cell
{
    uint64_t key; // granule index (addr >> 3); 0 = never used
    uint32_t epoch;
    uint8_t nr;
    uint8_t tomb;
    uint16_t pad;
    Acc w;
    Acc r[3];
};
static Cell *g_cells = nullptr;
static size_t g_ncells = 0; // power of two
static size_t g_used = 0;   // cells with current epoch

static void shadow_alloc(size_t n)
{
    g_cells = (Cell *)mmap(nullptr, n * sizeof(Cell), PROT_READ | PROT_WRITE, MAP_PRIVATE | MAP_ANONYMOUS | MAP_NORESERVE, -1, 0);
    if (g_cells == MAP_FAILED)
        fatal("shadow mmap failed");
    g_ncells = n;
    g_used = 0;
}

static inline size_t cell_hash(uint64_t key) { return (size_t)((key * 0x9E3779B97F4A7C15ULL) >> 20) & (g_ncells - 1); }

static void shadow_grow();

static inline Cell *shadow_get(uint64_t key, bool create)
{
    size_t i = cell_hash(key);
    Cell *firstfree = nullptr;
    for (;;)
    {
        Cell *c = &g_cells[i];
        if (c->epoch != g_epoch)
        { // empty (stale) slot ends the chain
            if (!create)
                return nullptr;
            if (firstfree)
                c = firstfree;
            else
                g_used++;
            c->key = key;
            c->epoch = g_epoch;
            c->nr = 0;
            c->tomb = 0;
            c->w.mask = 0;
            return c;
        }
        if (c->tomb)
        {
            if (!firstfree)
                firstfree = c;
        }
        else if (c->key == key)
            return c;
        i = (i + 1) & (g_ncells - 1);
    }
}

static void shadow_grow()
{
    Cell *old = g_cells;
    size_t oldn = g_ncells;
    shadow_alloc(oldn * 2);
    for (size_t i = 0; i < oldn; i++)
    {
        if (old[i].epoch == g_epoch && !old[i].tomb)
        {
            Cell *c = shadow_get(old[i].key, true);
            uint64_t k = c->key;
            *c = old[i];
            c->key = k;
        }
    }
    munmap(old, oldn * sizeof(Cell));
}

static void shadow_clear_range(uintptr_t lo, uintptr_t hi)
{
    if (!g_in_region || !g_detect)
        return;
    for (uint64_t k = lo >> 3; k <= (hi - 1) >> 3 && hi > lo; k++)
    {
        Cell *c = shadow_get(k, false);
        if (c)
        {
            c->tomb = 1;
            c->nr = 0;
            c->w.mask = 0;
        }
    }
}

std::string describe_addr(uintptr_t a)
{
    char buf[200];
    uintptr_t off = a - (uintptr_t)g_arena;
    if (off < ARENA_BYTES)
    {
        // binary search in the (address-ordered) block list, redzones included
        size_t lo = 0, hi = g_all.size();
        while (lo < hi)
        {
            size_t mid = (lo + hi) / 2;
            if (g_all[mid].user - g_all[mid].rz <= a)
                lo = mid + 1;
            else
                hi = mid;
        }
        if (lo > 0)
        {
            const Block &b = g_all[lo - 1];
            long rel = (long)(a - b.user);
            snprintf(buf, sizeof buf, "%s%s%+ld%s", b.name.c_str(), b.freed ? "[freed]" : "", rel, (rel < 0 || (size_t)rel >= b.size) ? " (outside its bytes)" : "");
            return buf;
        }
        return "simulated-heap(unallocated)";
    }
    for (int i = 0; i < MAXT; i++)
        if (g_members[i].stack_lo && a >= (uintptr_t)g_members[i].stack_lo && a < (uintptr_t)g_members[i].stack_lo + STACK_BYTES)
        {
            snprintf(buf, sizeof buf, "stack-of-member-%d", i);
            return buf;
        }
    {
        // the binary is linked -no-pie: static storage has the same address in every process
        if (a >= (uintptr_t)&__executable_start && a < (uintptr_t)&end)
        {
            snprintf(buf, sizeof buf, "static-storage@0x%lx (a global or function-static object of the library)", (unsigned long)a);
            return buf;
        }
    }
    return "encountering-thread-stack-or-other";
}

static inline bool hb(const Acc &a, const Member *cur) { return a.m == cur->idx || cur->vc[a.m] >= a.clk; }

static void report_race(const Acc &prev, bool prev_write, bool cur_write, uint64_t key, uint32_t pc)
{
    if (g_stats.race.found)
        return;
    RaceReport &r = g_stats.race;
    r.found = true;
    r.region = g_region_idx;
    r.member_a = prev.m;
    r.member_b = g_cur->idx;
    r.write_a = prev_write;
    r.write_b = cur_write;
    r.pc_a = prev.pc;
    r.pc_b = pc;
    r.where = describe_addr((uintptr_t)(key << 3));
    r.team = g_T;
}

static inline void shadow_access_granule(uint64_t key, uint8_t mask, bool is_write, uint32_t pc)
{
    Member *cur = g_cur;
    Cell *c = shadow_get(key, true);
    Acc me;
    me.m = (uint8_t)cur->idx;
    me.mask = mask;
    me.pad = 0;
    me.clk = cur->vc[cur->idx];
    me.pc = pc;
    if (c->w.mask && (c->w.mask & mask) && !hb(c->w, cur))
        report_race(c->w, true, is_write, key, pc);
    if (is_write)
    {
        for (int i = 0; i < c->nr; i++)
            if ((c->r[i].mask & mask) && !hb(c->r[i], cur))
                report_race(c->r[i], false, true, key, pc);
        if (c->w.mask && c->w.m == me.m)
            me.mask |= c->w.mask; // same member extends its own footprint
        c->w = me;
        // keep only readers that touch bytes this write did not cover
        int k = 0;
        for (int i = 0; i < c->nr; i++)
            if (c->r[i].mask & ~mask)
                c->r[k++] = c->r[i];
        c->nr = (uint8_t)k;
    }
    else
    {
        int slot = -1;
        for (int i = 0; i < c->nr; i++)
            if (c->r[i].m == me.m)
            {
                slot = i;
                me.mask |= c->r[i].mask;
                break;
            }
        if (slot < 0)
        {
            if (c->nr < 3)
                slot = c->nr++;
            else
            {
                // prefer to evict a reader that is ordered before us (no information lost)
                slot = -1;
                for (int i = 0; i < 3; i++)
                    if (hb(c->r[i], cur))
                    {
                        slot = i;
                        break;
                    }
                if (slot < 0)
                    slot = (int)(key % 3); // lose one reader: may miss a race, never invents one
            }
        }
        c->r[slot] = me;
    }
    if (g_used * 2 > g_ncells)
        shadow_grow();
}

static inline void shadow_access(uintptr_t a, size_t size, bool is_write, uint32_t pc)
{
    while (size)
    {
        unsigned off = a & 7;
        size_t n = std::min<size_t>(8 - off, size);
        uint8_t mask = (uint8_t)(((1u << n) - 1) << off);
        shadow_access_granule(a >> 3, mask, is_write, pc);
        a += n;
        size -= n;
    }
}

// ---------------------------------------------------------------------------------------------
// scheduler
// ---------------------------------------------------------------------------------------------
static inline bool runnable(const Member &m) { return m.st == M_NEW || m.st == M_RUN; }

static int64_t geometric_gap()
{
    // number of steps until the next switch attempt, success probability 2^-p_log per step
    double u = ((g_sched_rng.next() >> 11) + 1) * (1.0 / 9007199254740993.0);
    double p = std::ldexp(1.0, -g_cfg.p_log);
    double g = std::floor(std::log(u) / std::log1p(-p));
    if (!(g >= 0))
        g = 0;
    if (g > 1e15)
        g = 1e15;
    return 1 + (int64_t)g;
}

// replay: drop entries that can no longer apply (earlier region, finished or non-existent member,
// a preemption point the member `m` has already passed).  Keeps minimised lists meaningful.
static void replay_skip_stale(const Member *m)
{
    while (g_rp_next < g_cfg.replay.size())
    {
        const Switch &s = g_cfg.replay[g_rp_next];
        bool stale = false;
        if (s.region < g_region_idx)
            stale = true;
        else if (s.region == g_region_idx)
        {
            if (s.member >= g_T)
                stale = true;
            else if (s.member >= 0 && g_members[s.member].st == M_DONE)
                stale = true;
            else if (m && s.member == m->idx && s.at >= 0 && s.at < m->local)
                stale = true;
        }
        if (!stale)
            break;
        g_rp_next++;
    }
}

static void set_countdown_for(Member *m)
{
    switch (g_cfg.strategy)
    {
    case ST_RANDOM_WALK:
        g_countdown = geometric_gap();
        break;
    case ST_PCT:
        while (g_cp_next < g_change_points.size() && g_change_points[g_cp_next] <= g_steps_total)
            g_cp_next++; // change points that fell outside regions are skipped
        g_countdown = g_cp_next < g_change_points.size() ? (int64_t)(g_change_points[g_cp_next] - g_steps_total) : INT64_MAX;
        break;
    case ST_REPLAY:
    {
        g_countdown = INT64_MAX;
        replay_skip_stale(m);
        if (g_rp_next < g_cfg.replay.size())
        {
            const Switch &s = g_cfg.replay[g_rp_next];
            if (s.region == g_region_idx && s.member == m->idx && s.at > m->local)
                g_countdown = s.at - m->local;
        }
        break;
    }
    default:
        g_countdown = INT64_MAX;
    }
}

static void yield_to(int next)
{
    Member *m = g_cur;
    g_next = next;
#ifdef SIM_ASAN
    __sanitizer_start_switch_fiber(&m->fake_stack, g_main_stack_bottom, g_main_stack_size);
#endif
    sim_ctx_switch(&m->sp, g_sched_sp);
#ifdef SIM_ASAN
    __sanitizer_finish_switch_fiber(m->fake_stack, nullptr, nullptr);
#endif
}

// called by the running member at a preemption point when the countdown expired
static void decide()
{
    Member *m = g_cur;
    switch (g_cfg.strategy)
    {
    case ST_RANDOM_WALK:
    {
        int cand[MAXT], n = 0;
        for (int i = 0; i < g_T; i++)
            if (i != m->idx && runnable(g_members[i]))
                cand[n++] = i;
        g_countdown = geometric_gap();
        if (n == 0)
            return;
        yield_to(cand[g_sched_rng.below(n)]);
        return;
    }
    case ST_PCT:
    {
        g_cp_next++;
        g_prio[m->idx] = --g_low_prio; // demote: this member is now "stalled" until the others are through
        int best = -1;
        for (int i = 0; i < g_T; i++)
            if (runnable(g_members[i]) && (best < 0 || g_prio[i] > g_prio[best]))
                best = i;
        set_countdown_for(m);
        if (best >= 0 && best != m->idx)
        {
            g_stats.stalls++;
            yield_to(best);
        }
        return;
    }
    case ST_REPLAY:
    {
        if (g_rp_next < g_cfg.replay.size())
        {
            const Switch s = g_cfg.replay[g_rp_next];
            if (s.region == g_region_idx && s.member == m->idx && s.at == m->local)
            {
                g_rp_next++;
                if (s.next >= 0 && s.next < g_T && s.next != m->idx && runnable(g_members[s.next]))
                {
                    yield_to(s.next);
                    return;
                }
            }
        }
        set_countdown_for(m);
        return;
    }
    default:
        g_countdown = INT64_MAX;
    }
}

static inline void step()
{
    g_cur->local++;
    g_steps_total++;
    if (g_step_limit && g_steps_total + g_serial_steps > g_step_limit)
    {
        g_stats.no_progress = true;
        fatal("no-progress");
    }
    if (--g_countdown <= 0)
        decide();
}

// choose who runs after `prev` finished or blocked (prev may be -1 at region start)
static int pick_next(int prev, bool prev_finished)
{
    int cand[MAXT], n = 0;
    for (int i = 0; i < g_T; i++)
        if (runnable(g_members[i]))
            cand[n++] = i;
    if (n == 0)
        return -1;
    switch (g_cfg.strategy)
    {
    case ST_SERIAL_PERM:
        for (; g_perm_pos < g_T; g_perm_pos++)
            if (runnable(g_members[g_perm[g_perm_pos]]))
                return g_perm[g_perm_pos];
        return cand[0];
    case ST_RANDOM_WALK:
        return cand[g_sched_rng.below(n)];
    case ST_PCT:
    {
        int best = cand[0];
        for (int i = 1; i < n; i++)
            if (g_prio[cand[i]] > g_prio[best])
                best = cand[i];
        return best;
    }
    case ST_REPLAY:
    {
        // the entry of the member that just finished / blocked comes first (it must not be mistaken for a
        // stale entry of a finished member); only then are stale entries dropped
        for (int pass = 0; pass < 2; pass++)
        {
            if (g_rp_next < g_cfg.replay.size())
            {
                const Switch s = g_cfg.replay[g_rp_next];
                if (s.region == g_region_idx && s.member == prev)
                {
                    g_rp_next++;
                    if (s.next >= 0 && s.next < g_T && runnable(g_members[s.next]))
                        return s.next;
                    break;
                }
            }
            if (pass == 0)
                replay_skip_stale(nullptr);
        }
        return cand[0];
    }
    default:
        return cand[0];
    }
}

static void member_trampoline();

static void prepare_fiber(Member *m)
{
#ifdef SIM_MEMBER_TLS
    if (g_member_tls && m->idx >= 1 && !m->tcb)
        m->tcb = tls_new_block();
#endif
    // initial frame consumed by sim_ctx_switch: [mxcsr|fpucw][r15][r14][r13][r12][rbx][rbp][ret]
    uintptr_t top = ((uintptr_t)m->stack_lo + STACK_BYTES) & ~(uintptr_t)15;
    // the part of the stack a member normally uses starts from a defined state: zero in the clean
    // configuration, seeded garbage with dirty_heap (an uninitialised stack read then shows as a
    // difference to the reference run instead of depending on what the process ran before)
#ifdef SIM_PLAIN
    VALGRIND_MAKE_MEM_UNDEFINED(m->stack_lo + STACK_BYTES - 512 * 1024, 512 * 1024); // addressable again, contents undefined for memcheck
#else
    memset((char *)top - 16384, g_cfg.dirty_heap ? (int)(0x80 | (g_cfg.garbage_seed & 0x7f)) : 0, 16384);
#endif
    uint64_t *sp = (uint64_t *)top;
    // SysV: at function entry rsp % 16 == 8 (a call pushed the return address onto a 16-aligned stack).
    // top is 16-aligned; the slot at top-8 plays the return address of the trampoline, so after the `ret`
    // of sim_ctx_switch has popped the trampoline's address, rsp == top-8.
    *--sp = 0;                                    // fake return address of the trampoline (never used)
    *--sp = (uint64_t)(uintptr_t)&member_trampoline; // ret target
    *--sp = 0;                                    // rbp
    *--sp = 0;                                    // rbx
    *--sp = 0;                                    // r12
    *--sp = 0;                                    // r13
    *--sp = 0;                                    // r14
    *--sp = 0;                                    // r15
    uint32_t mxcsr = 0x1f80;
    uint16_t fpucw = 0x037f;
    uint64_t ctl = 0;
    memcpy((char *)&ctl, &mxcsr, 4);
    memcpy((char *)&ctl + 4, &fpucw, 2);
    *--sp = ctl;
    m->sp = sp;
}

static void member_trampoline()
{
#ifdef SIM_ASAN
    // first entry of this fiber: learn the bounds of the stack we came from (the encountering thread)
    __sanitizer_finish_switch_fiber(nullptr, &g_main_stack_bottom, &g_main_stack_size);
#endif
    Member *m = g_cur;
    g_fn(g_data);
    m->st = M_DONE;
    g_next = -1;
#ifdef SIM_ASAN
    __sanitizer_start_switch_fiber(nullptr, g_main_stack_bottom, g_main_stack_size); // fiber is finished: release its fake stack
#endif
    sim_ctx_switch(&m->sp, g_sched_sp);
    fatal("finished fiber resumed");
}

static void barrier_release_if_complete()
{
    int waiting = 0, alive = 0;
    for (int i = 0; i < g_T; i++)
    {
        if (g_members[i].st != M_DONE)
            alive++;
        if (g_members[i].st == M_WAIT_BARRIER)
            waiting++;
    }
    if (alive > 0 && waiting == alive)
    {
        uint32_t joined[MAXT];
        for (int k = 0; k < g_T; k++)
        {
            uint32_t v = 0;
            for (int i = 0; i < g_T; i++)
                v = std::max(v, g_members[i].vc[k]);
            joined[k] = v;
        }
        for (int i = 0; i < g_T; i++)
            if (g_members[i].st == M_WAIT_BARRIER)
            {
                memcpy(g_members[i].vc, joined, sizeof(uint32_t) * g_T);
                g_members[i].vc[i]++;
                g_members[i].st = M_RUN;
            }
    }
}

struct LockState
{
    int holder = -1;
    uint32_t vc[MAXT] = {0};
};
static std::map<void *, LockState> g_locks;
// one-time initialisation (pthread_once, guards of function-local statics): 0 = not started, 1 = in progress, 2 = done
struct OnceState
{
    int state = 0;
    int holder = -1;
};
static std::map<const void *, OnceState> g_once;

// work-sharing loops that go through the runtime (schedule(dynamic|guided|runtime), or static via the API)
struct WorkShare
{
    int kind; // 0 static, 1 dynamic, 2 guided
    bool up;
    unsigned long long next, end, incr, chunk; // incr is the magnitude; 'up' gives the direction
    unsigned long long total_chunks_handed;
    int singles;                    // GOMP_single_start arrivals
    unsigned long long static_pos[MAXT]; // per member: next static chunk index
    bool from_start;                // nested only: entered through a *_start call (popped by the matching *_end)
};
static std::vector<WorkShare> g_ws;
// Work-shares of NESTED regions (teams of one, run inline by the encountering member) are private to that member:
// while it is preempted inside its nested loop another member of the outer team may open a nested loop of its own.
static std::vector<WorkShare> g_nested_ws[MAXT + 1];
static bool g_ws_preinit = false;

static void run_region(void (*fn)(void *), void *data, int T, int requested)
{
    g_region_idx++;
    g_stats.regions++;
    g_stats.teams.push_back(T);
    g_stats.requested.push_back(requested);
    g_fn = fn;
    g_data = data;
    g_T = T;
    g_epoch++;
    if (g_epoch == 0)
    { // wrapped: wipe
        memset(g_cells, 0, g_ncells * sizeof(Cell));
        g_epoch = 1;
    }
    g_used = 0;
    g_locks.clear();
    g_once.clear();
    if (!g_ws_preinit)
        g_ws.clear();
    g_detect = g_cfg.detect_races && T > 1 && !g_asan_flavour;
    for (int i = 0; i < T; i++)
    {
        Member *m = &g_members[i];
        m->idx = i;
        m->st = M_NEW;
        m->local = 0;
        m->wait_lock = nullptr;
        m->fake_stack = nullptr;
        m->nest = 0;
        m->ws_count = g_ws_preinit ? 1 : 0;
        m->ws_cur = 0;
        memset(m->vc, 0, sizeof(uint32_t) * T);
        m->vc[i] = 1;
    }
    if (g_cfg.strategy == ST_SERIAL_PERM)
    {
        for (int i = 0; i < T; i++)
            g_perm[i] = i;
        for (int i = T - 1; i > 0; i--)
            std::swap(g_perm[i], g_perm[g_sched_rng.below(i + 1)]);
        g_perm_pos = 0;
    }
    if (g_cfg.strategy == ST_PCT)
    {
        int tmp[MAXT];
        for (int i = 0; i < T; i++)
            tmp[i] = i;
        for (int i = T - 1; i > 0; i--)
            std::swap(tmp[i], tmp[g_sched_rng.below(i + 1)]);
        for (int i = 0; i < T; i++)
            g_prio[tmp[i]] = i + 1; // 1..T, demotions go to 0, -1, ...
        g_low_prio = 1;
    }
    g_in_region = true;

    if (T == 1)
    {
        // one member: runs on the encountering thread's stack, nothing to schedule or to race with
        Member *m = &g_members[0];
        m->st = M_RUN;
        g_cur = m;
        g_countdown = INT64_MAX;
        record_decision(-1, 0, 0);
        fn(data);
        m->st = M_DONE;
        record_decision(0, -1, -1);
    }
    else
    {
        for (int i = 0; i < T; i++)
            prepare_fiber(&g_members[i]);
        int prev = -1;
        int64_t prev_at = 0;
        bool prev_finished = true;
        bool prev_blocked = false;
        uint64_t started_unfinished = 0;
        for (;;)
        {
            int next;
            if (g_next >= 0)
            {
                next = g_next;
                g_next = -1;
                if (g_cfg.strategy == ST_REPLAY && prev_blocked && g_rp_next < g_cfg.replay.size())
                {
                    // a lock wait names the holder itself; the recorded entry of this wait is consumed with it
                    const Switch s = g_cfg.replay[g_rp_next];
                    if (s.region == g_region_idx && s.member == prev && s.at == -2)
                    {
                        g_rp_next++;
                        if (s.next >= 0 && s.next < g_T && runnable(g_members[s.next]))
                            next = s.next;
                    }
                }
            }
            else
                next = pick_next(prev, prev_finished);
            if (next < 0)
            {
                bool all_done = true;
                for (int i = 0; i < T; i++)
                    if (g_members[i].st != M_DONE)
                        all_done = false;
                if (all_done)
                {
                    record_decision(prev, -1, -1);
                    break;
                }
                g_stats.deadlock = true;
                fatal("deadlock: no runnable member");
            }
            // at >= 0: preempted after that many steps; -1: finished; -2: blocked (barrier / lock wait)
            record_decision(prev, prev_finished ? -1 : prev_blocked ? -2 : prev_at, next);
            if (prev >= 0 && !prev_finished && next != prev)
                g_stats.switches++;
            Member *m = &g_members[next];
            if (m->st == M_NEW)
            {
                m->st = M_RUN;
                started_unfinished++;
                g_stats.max_concurrent = std::max(g_stats.max_concurrent, started_unfinished);
            }
            g_cur = m;
            set_countdown_for(m);
#ifdef SIM_ASAN
            void *fake = nullptr;
            __sanitizer_start_switch_fiber(&fake, m->stack_lo, STACK_BYTES);
#endif
#ifdef SIM_MEMBER_TLS
            if (m->tcb)
                set_fs(m->tcb);
#endif
            sim_ctx_switch(&g_sched_sp, m->sp);
#ifdef SIM_MEMBER_TLS
            if (g_member_tls)
                set_fs(g_main_tcb);
#endif
#ifdef SIM_ASAN
            __sanitizer_finish_switch_fiber(fake, nullptr, nullptr);
#endif
            prev = m->idx;
            prev_at = m->local;
            prev_finished = (m->st == M_DONE);
            prev_blocked = g_blocking_yield;
            g_blocking_yield = false;
            if (prev_finished)
                started_unfinished--;
            if (m->st == M_WAIT_BARRIER)
                barrier_release_if_complete();
        }
    }
    g_in_region = false;
    g_ws_preinit = false;
    g_ws.clear();
    g_cur = nullptr;
    g_detect = false;
    g_countdown = INT64_MAX;
}

// ---------------------------------------------------------------------------------------------
// public control interface
// ---------------------------------------------------------------------------------------------
void init()
{
    size_t per = STACK_BYTES + GUARD_BYTES;
    g_stack_pool = (char *)mmap(nullptr, per * MAXT + GUARD_BYTES, PROT_READ | PROT_WRITE, MAP_PRIVATE | MAP_ANONYMOUS | MAP_NORESERVE, -1, 0);
    if (g_stack_pool == MAP_FAILED)
        fatal("stack pool mmap failed");
    for (int i = 0; i < MAXT; i++)
    {
        mprotect(g_stack_pool + per * i, GUARD_BYTES, PROT_NONE);
        g_members[i].stack_lo = g_stack_pool + per * i + GUARD_BYTES;
    }
    mprotect(g_stack_pool + per * MAXT, GUARD_BYTES, PROT_NONE);
#ifdef SIM_PLAIN
    for (int i = 0; i < MAXT; i++)
        VALGRIND_STACK_REGISTER(g_members[i].stack_lo, g_members[i].stack_lo + STACK_BYTES);
#endif
    shadow_alloc(1u << 16);
    arena_init();
#ifdef SIM_MEMBER_TLS
    tls_init();
#endif
}

void set_machine(const MachineConfig &m)
{
    g_machine = m;
    arena_reset(); // layout, contents and garbage derivation must not depend on what the process ran before
    icv_nthreads_var = m.nthreads_var;
    icv_thread_limit = m.thread_limit;
    icv_dyn = m.dyn;
    icv_run_sched_kind = 0;
    icv_run_sched_chunk = 0;
}

void host_set_icv(int nthreads, int dyn, int limit)
{
    if (nthreads > 0)
        icv_nthreads_var = nthreads;
    if (dyn >= 0)
        icv_dyn = dyn != 0;
    if (limit > 0)
        icv_thread_limit = limit;
}
int icv_nthreads() { return icv_nthreads_var; }
IcvState icv_save() { return IcvState{icv_nthreads_var, icv_thread_limit, icv_dyn, icv_run_sched_kind, icv_run_sched_chunk}; }
void icv_restore(const IcvState &s)
{
    icv_nthreads_var = s.nthreads_var;
    icv_thread_limit = s.thread_limit;
    icv_dyn = s.dyn;
    icv_run_sched_kind = s.run_sched_kind;
    icv_run_sched_chunk = s.run_sched_chunk;
}

void begin_op(const OpSim &cfg)
{
    g_cfg = cfg;
    g_stats = OpStats();
    g_stats.sched_hash = 0xcbf29ce484222325ULL;
    g_op_active = true;
    for (auto &stk : g_nested_ws)
        stk.clear();
    g_sched_rng.reseed(cfg.sched_seed);
    g_team_rng.reseed(derive_seed(cfg.sched_seed, 0x7ea3));
    g_region_idx = -1;
    g_steps_total = 0;
    g_step_limit = cfg.step_limit;
    g_rp_next = 0;
    g_next = -1;
    g_cp_next = 0;
    g_change_points.clear();
    if (cfg.strategy == ST_PCT)
    {
        uint64_t est = std::max<uint64_t>(cfg.step_estimate, 16);
        for (int i = 0; i + 1 < cfg.pct_d; i++)
            g_change_points.push_back(1 + g_sched_rng.below(est));
        std::sort(g_change_points.begin(), g_change_points.end());
    }
}

OpStats end_op()
{
    g_op_active = false;
    g_stats.steps = g_steps_total;
    g_stats.serial_steps = g_serial_steps;
    g_serial_steps = 0;
    OpStats s = std::move(g_stats);
    g_stats = OpStats();
    g_cfg = OpSim();
    return s;
}

} // namespace sim

using namespace sim;

// ---------------------------------------------------------------------------------------------
// OpenMP runtime surface
// ---------------------------------------------------------------------------------------------
extern "C"
{
    void GOMP_parallel(void (*fn)(void *), void *data, unsigned num_threads, unsigned flags)
    {
        (void)flags;
        if (g_in_region)
        {
            // nested region: max-active-levels = 1 -> team of one, run inline by the encountering member
            g_stats.nested_regions++;
            g_nest++;
            fn(data);
            g_nest--;
            return;
        }
        int requested = num_threads ? (int)std::min<unsigned>(num_threads, 1u << 30) : icv_nthreads_var;
        if (requested < 1)
            requested = 1;
        int T = requested;
        bool limited = false;
        if (T > icv_thread_limit)
        {
            T = icv_thread_limit;
            limited = true;
            g_stats.limit_capped++;
        }
        if (T > MAXT)
            T = MAXT;
        if (g_cfg.force_single)
            T = 1;
        else if (g_cfg.shortfall && T > 1 && (icv_dyn || limited))
        {
            // OpenMP: with dyn-var true, or when the request cannot be met, the team size is
            // implementation defined between 1 and the request.
            int t2 = 1 + (int)g_team_rng.below(T);
            if (t2 < T)
                g_stats.shortfall_fired++;
            T = t2;
        }
        run_region(fn, data, T, requested);
    }

    int omp_get_num_threads(void) { return (g_in_region && g_nest == 0) ? g_T : 1; }
    int omp_get_thread_num(void) { return (g_in_region && g_nest == 0 && g_cur) ? g_cur->idx : 0; }
    int omp_get_max_threads(void) { return icv_nthreads_var; }
    void omp_set_num_threads(int n)
    {
        if (n > 0)
            icv_nthreads_var = n;
        if (g_op_active)
            g_stats.icv_sets++;
    }
    void omp_set_dynamic(int d)
    {
        icv_dyn = d != 0;
        if (g_op_active)
            g_stats.icv_sets++;
    }
    int omp_get_dynamic(void) { return icv_dyn; }
    int omp_get_thread_limit(void) { return icv_thread_limit; }
    int omp_get_num_procs(void) { return g_machine.nthreads_var; }
    int omp_in_parallel(void) { return g_in_region; }
    int omp_get_level(void) { return g_in_region ? 1 + g_nest : 0; }
    int omp_get_active_level(void) { return g_in_region && g_T > 1 ? 1 : 0; }
    int omp_get_max_active_levels(void) { return 1; }
    void omp_set_max_active_levels(int) {}
    void omp_set_nested(int) {}
    int omp_get_nested(void) { return 0; }
    void omp_set_schedule(int kind, int chunk)
    {
        icv_run_sched_kind = kind & 0x7fffffff; // the monotonic modifier bit is irrelevant here
        icv_run_sched_chunk = chunk;
        if (g_op_active)
            g_stats.icv_sets++;
    }
    void omp_get_schedule(int *kind, int *chunk)
    {
        *kind = icv_run_sched_kind ? icv_run_sched_kind : 2;
        *chunk = icv_run_sched_kind ? icv_run_sched_chunk : 1;
    }
    double omp_get_wtime(void) { return (double)g_steps_total * 1e-9; } // logical time: the code under test reads no clock
    double omp_get_wtick(void) { return 1e-9; }

    void GOMP_barrier(void)
    {
        if (!g_in_region || g_nest || g_T == 1)
            return;
        step();
        g_cur->st = M_WAIT_BARRIER;
        // the last arriver releases everybody (done by the scheduler loop)
        g_blocking_yield = true;
        yield_to(-1);
    }

    static void lock_acquire(void *key)
    {
        if (!g_in_region || g_nest || g_T == 1)
            return;
        step();
        for (;;)
        {
            LockState &L = g_locks[key];
            if (L.holder < 0)
            {
                L.holder = g_cur->idx;
                for (int k = 0; k < g_T; k++)
                    g_cur->vc[k] = std::max(g_cur->vc[k], L.vc[k]);
                return;
            }
            // somebody (preempted) holds it: wait; simple spin-yield to another runnable member
            int cand[MAXT], n = 0;
            for (int i = 0; i < g_T; i++)
                if (i != g_cur->idx && runnable(g_members[i]))
                    cand[n++] = i;
            if (n == 0)
                fatal("deadlock: lock holder not runnable");
            g_blocking_yield = true;
            yield_to(L.holder >= 0 && runnable(g_members[L.holder]) ? L.holder : cand[0]);
        }
    }
    static void lock_release(void *key)
    {
        if (!g_in_region || g_nest || g_T == 1)
            return;
        LockState &L = g_locks[key];
        L.holder = -1;
        memcpy(L.vc, g_cur->vc, sizeof(uint32_t) * g_T);
        g_cur->vc[g_cur->idx]++;
        step();
    }
    static char g_default_critical, g_atomic_lock;
    void GOMP_critical_start(void) { lock_acquire(&g_default_critical); }
    void GOMP_critical_end(void) { lock_release(&g_default_critical); }
    void GOMP_critical_name_start(void **pptr) { lock_acquire(pptr); }
    void GOMP_critical_name_end(void **pptr) { lock_release(pptr); }
    void GOMP_atomic_start(void) { lock_acquire(&g_atomic_lock); }
    void GOMP_atomic_end(void) { lock_release(&g_atomic_lock); }
    typedef struct
    {
        void *p;
    } sim_omp_lock_t;
    void omp_init_lock(void **l) { *l = nullptr; }
    void omp_destroy_lock(void **) {}
    void omp_set_lock(void **l) { lock_acquire(l); }
    void omp_unset_lock(void **l) { lock_release(l); }
}

// ---------------------------------------------------------------------------------------------
// memory-access seam: __tsan_* callbacks (emitted by g++ -fsanitize=thread into the repo objects)
// ---------------------------------------------------------------------------------------------
#define RA ((uint32_t)(uintptr_t)__builtin_return_address(0))

static inline void serial_step()
{
    g_serial_steps++;
    if (g_step_limit && g_serial_steps + g_steps_total > g_step_limit && g_op_active)
    {
        g_stats.no_progress = true;
        fatal("no-progress");
    }
}

static inline void on_access(void *a, size_t n, bool w, uint32_t pc)
{
    poison_check((uintptr_t)a, n, w, pc);
    if (g_in_region)
    {
        step();
        if (g_detect)
            shadow_access((uintptr_t)a, n, w, pc);
    }
    else
        serial_step();
}

extern "C"
{
    void __tsan_init(void) {}
    void __tsan_func_entry(void *) {}
    void __tsan_func_exit(void) {}
    void __tsan_read1(void *a) { on_access(a, 1, false, RA); }
    void __tsan_read2(void *a) { on_access(a, 2, false, RA); }
    void __tsan_read4(void *a) { on_access(a, 4, false, RA); }
    void __tsan_read8(void *a) { on_access(a, 8, false, RA); }
    void __tsan_read16(void *a) { on_access(a, 16, false, RA); }
    void __tsan_write1(void *a) { on_access(a, 1, true, RA); }
    void __tsan_write2(void *a) { on_access(a, 2, true, RA); }
    void __tsan_write4(void *a) { on_access(a, 4, true, RA); }
    void __tsan_write8(void *a) { on_access(a, 8, true, RA); }
    void __tsan_write16(void *a) { on_access(a, 16, true, RA); }
    void __tsan_unaligned_read2(void *a) { on_access(a, 2, false, RA); }
    void __tsan_unaligned_read4(void *a) { on_access(a, 4, false, RA); }
    void __tsan_unaligned_read8(void *a) { on_access(a, 8, false, RA); }
    void __tsan_unaligned_read16(void *a) { on_access(a, 16, false, RA); }
    void __tsan_unaligned_write2(void *a) { on_access(a, 2, true, RA); }
    void __tsan_unaligned_write4(void *a) { on_access(a, 4, true, RA); }
    void __tsan_unaligned_write8(void *a) { on_access(a, 8, true, RA); }
    void __tsan_unaligned_write16(void *a) { on_access(a, 16, true, RA); }
    void __tsan_read_range(void *a, unsigned long n) { on_access(a, n, false, RA); }
    void __tsan_write_range(void *a, unsigned long n) { on_access(a, n, true, RA); }
    void __tsan_vptr_update(void **a, void *) { on_access(a, 8, true, RA); }
    void __tsan_vptr_read(void **a) { on_access(a, 8, false, RA); }

    // ---- mem* of the repo objects (renamed by objcopy): recorded as range accesses, and a
    //      preemption point before and after the copy
    void *simw_memcpy(void *d, const void *s, size_t n)
    {
        uint32_t pc = RA;
        poison_check((uintptr_t)s, n, false, pc);
        poison_check((uintptr_t)d, n, true, pc);
        if (g_in_region)
        {
            step();
            if (g_detect && n)
            {
                shadow_access((uintptr_t)s, n, false, pc);
                shadow_access((uintptr_t)d, n, true, pc);
            }
            void *r = memcpy(d, s, n);
            step();
            return r;
        }
        serial_step();
        return memcpy(d, s, n);
    }
    void *simw_memmove(void *d, const void *s, size_t n)
    {
        uint32_t pc = RA;
        poison_check((uintptr_t)s, n, false, pc);
        poison_check((uintptr_t)d, n, true, pc);
        if (g_in_region)
        {
            step();
            if (g_detect && n)
            {
                shadow_access((uintptr_t)s, n, false, pc);
                shadow_access((uintptr_t)d, n, true, pc);
            }
            void *r = memmove(d, s, n);
            step();
            return r;
        }
        serial_step();
        return memmove(d, s, n);
    }
    void *simw_memset(void *d, int c, size_t n)
    {
        uint32_t pc = RA;
        poison_check((uintptr_t)d, n, true, pc);
        if (g_in_region)
        {
            step();
            if (g_detect && n)
                shadow_access((uintptr_t)d, n, true, pc);
            void *r = memset(d, c, n);
            step();
            return r;
        }
        serial_step();
        return memset(d, c, n);
    }

#if !defined(SIM_ASAN) && !defined(SIM_PLAIN)
    // ---- allocation of the repo objects (renamed by objcopy)
    void *simw_malloc(size_t n) { return heap_alloc(n, AK_MALLOC); }
    void *simw_calloc(size_t a, size_t b)
    {
        void *p = heap_alloc(a * b, AK_MALLOC);
        memset(p, 0, a * b);
        return p;
    }
    void *simw_realloc(void *p, size_t n)
    {
        if (!p)
            return heap_alloc(n, AK_MALLOC);
        auto it = g_blocks.find((uintptr_t)p);
        if (it == g_blocks.end())
            return realloc(p, n);
        void *q = heap_alloc(n, AK_MALLOC);
        memcpy(q, p, std::min(n, g_all[it->second].size));
        heap_release(p, AK_MALLOC, "realloc");
        return q;
    }
    void simw_free(void *p)
    {
        if (!heap_release(p, AK_MALLOC, "free"))
            free(p);
    }
    void *simw_Znwm(size_t n) { return heap_alloc(n, AK_NEW); }
    void *simw_Znam(size_t n) { return heap_alloc(n, AK_NEW_ARR); }
    void simw_ZdlPv(void *p)
    {
        if (!heap_release(p, AK_NEW, "operator delete"))
            ::operator delete(p);
    }
    void simw_ZdlPvm(void *p, size_t)
    {
        if (!heap_release(p, AK_NEW, "operator delete"))
            ::operator delete(p);
    }
    void simw_ZdaPv(void *p)
    {
        if (!heap_release(p, AK_NEW_ARR, "operator delete[]"))
            ::operator delete[](p);
    }
    void simw_ZdaPvm(void *p, size_t)
    {
        if (!heap_release(p, AK_NEW_ARR, "operator delete[]"))
            ::operator delete[](p);
    }
#endif
}

// ---------------------------------------------------------------------------------------------
// Work-sharing constructs that call the runtime.  The repository's loops are all statically
// scheduled inline by GCC and never reach these; they exist so that a benign edit (a
// schedule(dynamic), a single, a critical ...) still links and is simulated with the right
// happens-before edges instead of breaking the check.  `next` calls are scheduler decision
// points (who gets the next chunk) and carry no happens-before edge.
// ---------------------------------------------------------------------------------------------
static Member g_orphan; // work-sharing outside any parallel region: a team of one

static inline Member *ws_member() { return g_in_region && g_cur ? g_cur : &g_orphan; }
static inline int ws_team() { return g_in_region && g_nest == 0 ? g_T : 1; }
static inline int ws_index() { return g_in_region && g_nest == 0 && g_cur ? g_cur->idx : 0; }

static inline bool ws_nested() { return g_in_region && g_nest > 0; }
static inline std::vector<WorkShare> &ws_nested_stack() { return g_nested_ws[g_cur ? g_cur->idx : MAXT]; }
static WorkShare &ws_enter(int kind, bool up, unsigned long long start, unsigned long long end, unsigned long long incr, unsigned long long chunk)
{
    if (ws_nested())
    {
        WorkShare w;
        memset(&w, 0, sizeof w);
        w.kind = kind;
        w.up = up;
        w.next = start;
        w.end = end;
        w.incr = incr ? incr : 1;
        w.chunk = chunk ? chunk : 1;
        w.from_start = true;
        ws_nested_stack().push_back(w);
        return ws_nested_stack().back();
    }
    Member *m = ws_member();
    if (!g_in_region)
        g_ws.clear(), m->ws_count = 0;
    int idx = m->ws_count++;
    m->ws_cur = idx;
    if ((int)g_ws.size() <= idx)
    {
        WorkShare w;
        memset(&w, 0, sizeof w);
        w.kind = kind;
        w.up = up;
        w.next = start;
        w.end = end;
        w.incr = incr ? incr : 1;
        w.chunk = chunk ? chunk : 1;
        g_ws.resize(idx + 1, w);
        g_ws[idx] = w;
    }
    return g_ws[idx];
}

static unsigned long long ws_remaining(const WorkShare &w)
{
    if (w.up)
        return w.next < w.end ? (w.end - w.next + w.incr - 1) / w.incr : 0;
    return w.next > w.end ? (w.next - w.end + w.incr - 1) / w.incr : 0;
}

// hands out the next chunk [*s, *e) (in iteration-variable units) or returns false
static bool ws_next(unsigned long long *s, unsigned long long *e)
{
    if (g_in_region && g_nest == 0 && g_T > 1)
        step();
    Member *m = ws_member();
    if (ws_nested() && ws_nested_stack().empty())
        return false;
    if (!ws_nested() && (m->ws_cur < 0 || m->ws_cur >= (int)g_ws.size()))
        return false;
    WorkShare &w = ws_nested() ? ws_nested_stack().back() : g_ws[m->ws_cur];
    int T = ws_team(), me = ws_index();
    unsigned long long rem = ws_remaining(w);
    if (w.kind == 0)
    {
        // static through the API: chunks of w.chunk dealt round-robin (chunk==0 at entry meant one block per member)
        unsigned long long total_iters;
        // recompute from the original bounds kept in static_pos bookkeeping: next never moves for static
        total_iters = rem;
        if (w.chunk == 0)
            w.chunk = std::max<unsigned long long>(1, (total_iters + (unsigned long long)T - 1) / (unsigned long long)T);
        unsigned long long nchunks = (total_iters + w.chunk - 1) / w.chunk;
        unsigned long long k = w.static_pos[me] * (unsigned long long)T + (unsigned long long)me;
        if (k >= nchunks)
            return false;
        w.static_pos[me]++;
        unsigned long long first = k * w.chunk, last = std::min(total_iters, first + w.chunk);
        if (w.up)
        {
            *s = w.next + first * w.incr;
            *e = w.next + last * w.incr;
            if (last == total_iters)
                *e = w.end;
        }
        else
        {
            *s = w.next - first * w.incr;
            *e = last == total_iters ? w.end : w.next - last * w.incr;
        }
        return true;
    }
    if (rem == 0)
        return false;
    unsigned long long take = w.chunk;
    if (w.kind == 2)
        take = std::max<unsigned long long>(w.chunk, (rem + (unsigned long long)T - 1) / (unsigned long long)T);
    if (take > rem)
        take = rem;
    *s = w.next;
    if (w.up)
    {
        w.next += take * w.incr;
        *e = take == rem ? w.end : w.next;
        if (take == rem)
            w.next = w.end;
    }
    else
    {
        w.next -= take * w.incr;
        *e = take == rem ? w.end : w.next;
        if (take == rem)
            w.next = w.end;
    }
    w.total_chunks_handed++;
    return true;
}

static bool ws_start_long(int kind, long start, long end, long incr, long chunk, long *is, long *ie)
{
    bool up = incr > 0;
    unsigned long long mag = (unsigned long long)(up ? incr : -incr);
    // long bounds mapped into the unsigned domain with an offset so that comparisons stay monotone
    const unsigned long long OFF = 1ULL << 63;
    if (kind == 0 && chunk == 0)
    {
        unsigned long long iters = up ? (end > start ? ((unsigned long long)(end - start) + mag - 1) / mag : 0) : (start > end ? ((unsigned long long)(start - end) + mag - 1) / mag : 0);
        int T = ws_team();
        chunk = (long)((iters + (unsigned long long)T - 1) / (unsigned long long)T);
    }
    ws_enter(kind, up, (unsigned long long)start + OFF, (unsigned long long)end + OFF, mag, (unsigned long long)chunk);
    unsigned long long s, e;
    if (!ws_next(&s, &e))
        return false;
    *is = (long)(s - OFF);
    *ie = (long)(e - OFF);
    return true;
}
static bool ws_next_long(long *is, long *ie)
{
    const unsigned long long OFF = 1ULL << 63;
    unsigned long long s, e;
    if (!ws_next(&s, &e))
        return false;
    *is = (long)(s - OFF);
    *ie = (long)(e - OFF);
    return true;
}
static bool ws_start_ull(int kind, bool up, unsigned long long start, unsigned long long end, unsigned long long incr, unsigned long long chunk, unsigned long long *is, unsigned long long *ie)
{
    unsigned long long mag = up ? incr : (unsigned long long)(-(long long)incr);
    if (kind == 0 && chunk == 0)
    {
        unsigned long long iters = up ? (end > start ? (end - start + mag - 1) / mag : 0) : (start > end ? (start - end + mag - 1) / mag : 0);
        int T = ws_team();
        chunk = (iters + (unsigned long long)T - 1) / (unsigned long long)T;
    }
    ws_enter(kind, up, start, end, mag, chunk);
    return ws_next(is, ie);
}

static void parallel_loop(void (*fn)(void *), void *data, unsigned num_threads, int kind, long start, long end, long incr, long chunk, unsigned flags)
{
    // combined parallel + loop: the work-share exists before the members start; they only call *_next
    bool up = incr > 0;
    const unsigned long long OFF = 1ULL << 63;
    WorkShare w;
    memset(&w, 0, sizeof w);
    w.kind = kind;
    w.up = up;
    w.next = (unsigned long long)start + OFF;
    w.end = (unsigned long long)end + OFF;
    w.incr = (unsigned long long)(up ? incr : -incr);
    w.chunk = chunk > 0 ? (unsigned long long)chunk : (kind == 0 ? 0 : 1); // static without a chunk: one block per member, sized when the team is known
    if (g_in_region)
    {
        // nested: a team of one; the work-share is private to the encountering member
        std::vector<WorkShare> &stk = ws_nested_stack();
        size_t depth = stk.size();
        stk.push_back(w);
        GOMP_parallel(fn, data, num_threads, flags);
        ws_nested_stack().resize(depth);
        return;
    }
    g_ws.clear();
    g_ws.push_back(w);
    g_ws_preinit = true;
    g_orphan.ws_cur = 0;
    g_orphan.ws_count = 1;
    GOMP_parallel(fn, data, num_threads, flags);
    g_ws_preinit = false;
}

extern "C"
{
#define LOOP_FAMILY(name, kind)                                                                                                                       \
    bool GOMP_loop_##name##_start(long start, long end, long incr, long chunk, long *is, long *ie) { return ws_start_long(kind, start, end, incr, chunk, is, ie); } \
    bool GOMP_loop_##name##_next(long *is, long *ie) { return ws_next_long(is, ie); }                                                                \
    bool GOMP_loop_ull_##name##_start(bool up, unsigned long long start, unsigned long long end, unsigned long long incr, unsigned long long chunk, unsigned long long *is, unsigned long long *ie) \
    {                                                                                                                                                 \
        return ws_start_ull(kind, up, start, end, incr, chunk, is, ie);                                                                               \
    }                                                                                                                                                 \
    bool GOMP_loop_ull_##name##_next(unsigned long long *is, unsigned long long *ie) { return ws_next(is, ie); }                                      \
    void GOMP_parallel_loop_##name(void (*fn)(void *), void *data, unsigned nt, long start, long end, long incr, long chunk, unsigned flags)          \
    {                                                                                                                                                 \
        parallel_loop(fn, data, nt, kind, start, end, incr, chunk, flags);                                                                            \
    }
    LOOP_FAMILY(static, 0)
    LOOP_FAMILY(dynamic, 1)
    LOOP_FAMILY(guided, 2)
    LOOP_FAMILY(nonmonotonic_dynamic, 1)
    LOOP_FAMILY(nonmonotonic_guided, 2)
    // schedule(runtime): run-sched-var as set by omp_set_schedule; when it was never set the choice is implementation
    // defined and dynamic,1 is used (the most adversarial legal one)
    static inline int rt_kind() { return icv_run_sched_kind == 1 || icv_run_sched_kind == 4 ? 0 : icv_run_sched_kind == 3 ? 2 : 1; }
    static inline long rt_chunk() { return icv_run_sched_kind == 0 ? 1 : (icv_run_sched_chunk > 0 ? icv_run_sched_chunk : (rt_kind() == 0 ? 0 : 1)); }
#define RUNTIME_FAMILY(name)                                                                                                                          \
    bool GOMP_loop_##name##_start(long start, long end, long incr, long *is, long *ie) { return ws_start_long(rt_kind(), start, end, incr, rt_chunk(), is, ie); } \
    bool GOMP_loop_##name##_next(long *is, long *ie) { return ws_next_long(is, ie); }                                                                 \
    bool GOMP_loop_ull_##name##_start(bool up, unsigned long long start, unsigned long long end, unsigned long long incr, unsigned long long *is, unsigned long long *ie) \
    {                                                                                                                                                 \
        return ws_start_ull(rt_kind(), up, start, end, incr, (unsigned long long)rt_chunk(), is, ie);                                                 \
    }                                                                                                                                                 \
    bool GOMP_loop_ull_##name##_next(unsigned long long *is, unsigned long long *ie) { return ws_next(is, ie); }                                      \
    void GOMP_parallel_loop_##name(void (*fn)(void *), void *data, unsigned nt, long start, long end, long incr, unsigned flags)                      \
    {                                                                                                                                                 \
        parallel_loop(fn, data, nt, rt_kind(), start, end, incr, rt_chunk(), flags);                                                                  \
    }
    RUNTIME_FAMILY(runtime)
    RUNTIME_FAMILY(nonmonotonic_runtime)
    RUNTIME_FAMILY(maybe_nonmonotonic_runtime)

    static inline void ws_nested_end()
    {
        if (ws_nested() && !ws_nested_stack().empty() && ws_nested_stack().back().from_start)
            ws_nested_stack().pop_back();
    }
    void GOMP_loop_end(void)
    {
        ws_nested_end();
        GOMP_barrier();
    }
    void GOMP_loop_end_nowait(void) { ws_nested_end(); }
    bool GOMP_loop_end_cancel(void)
    {
        ws_nested_end();
        GOMP_barrier();
        return false;
    }
    bool GOMP_single_start(void)
    {
        if (!g_in_region || g_nest || g_T == 1)
            return true;
        step();
        WorkShare &w = ws_enter(1, true, 0, 0, 1, 1);
        return w.singles++ == 0;
    }
    bool GOMP_cancellation_point(int) { return false; }
    bool GOMP_cancel(int, bool) { return false; }
}

// ---------------------------------------------------------------------------------------------
// __tsan_atomic*: emitted by -fsanitize=thread for std::atomic / #pragma omp atomic.  The operation
// itself is performed directly (one OS thread); every atomic access is a preemption point and an
// acquire+release on a per-address sync object (sequentially consistent, the strongest and for a
// race detector the most conservative reading: never invents a race).
// ---------------------------------------------------------------------------------------------
static void atomic_sync(const volatile void *a)
{
    if (!g_in_region || g_T == 1)
        return;
    step();
    LockState &L = g_locks[(void *)a];
    for (int k = 0; k < g_T; k++)
    {
        uint32_t v = std::max(g_cur->vc[k], L.vc[k]);
        g_cur->vc[k] = v;
        L.vc[k] = v;
    }
    g_cur->vc[g_cur->idx]++;
}
typedef unsigned __int128 a128;
#define TSAN_ATOMIC(bits, T)                                                                                             \
    extern "C" T __tsan_atomic##bits##_load(const volatile T *a, int)                                                   \
    {                                                                                                                    \
        atomic_sync(a);                                                                                                  \
        return *a;                                                                                                       \
    }                                                                                                                    \
    extern "C" void __tsan_atomic##bits##_store(volatile T *a, T v, int)                                                \
    {                                                                                                                    \
        atomic_sync(a);                                                                                                  \
        *a = v;                                                                                                          \
    }                                                                                                                    \
    extern "C" T __tsan_atomic##bits##_exchange(volatile T *a, T v, int)                                                \
    {                                                                                                                    \
        atomic_sync(a);                                                                                                  \
        T o = *a;                                                                                                        \
        *a = v;                                                                                                          \
        return o;                                                                                                        \
    }                                                                                                                    \
    extern "C" T __tsan_atomic##bits##_fetch_add(volatile T *a, T v, int)                                               \
    {                                                                                                                    \
        atomic_sync(a);                                                                                                  \
        T o = *a;                                                                                                        \
        *a = (T)(o + v);                                                                                                 \
        return o;                                                                                                        \
    }                                                                                                                    \
    extern "C" T __tsan_atomic##bits##_fetch_sub(volatile T *a, T v, int)                                               \
    {                                                                                                                    \
        atomic_sync(a);                                                                                                  \
        T o = *a;                                                                                                        \
        *a = (T)(o - v);                                                                                                 \
        return o;                                                                                                        \
    }                                                                                                                    \
    extern "C" T __tsan_atomic##bits##_fetch_and(volatile T *a, T v, int)                                               \
    {                                                                                                                    \
        atomic_sync(a);                                                                                                  \
        T o = *a;                                                                                                        \
        *a = (T)(o & v);                                                                                                 \
        return o;                                                                                                        \
    }                                                                                                                    \
    extern "C" T __tsan_atomic##bits##_fetch_or(volatile T *a, T v, int)                                                \
    {                                                                                                                    \
        atomic_sync(a);                                                                                                  \
        T o = *a;                                                                                                        \
        *a = (T)(o | v);                                                                                                 \
        return o;                                                                                                        \
    }                                                                                                                    \
    extern "C" T __tsan_atomic##bits##_fetch_xor(volatile T *a, T v, int)                                               \
    {                                                                                                                    \
        atomic_sync(a);                                                                                                  \
        T o = *a;                                                                                                        \
        *a = (T)(o ^ v);                                                                                                 \
        return o;                                                                                                        \
    }                                                                                                                    \
    extern "C" T __tsan_atomic##bits##_fetch_nand(volatile T *a, T v, int)                                              \
    {                                                                                                                    \
        atomic_sync(a);                                                                                                  \
        T o = *a;                                                                                                        \
        *a = (T) ~(o & v);                                                                                               \
        return o;                                                                                                        \
    }                                                                                                                    \
    extern "C" int __tsan_atomic##bits##_compare_exchange_strong(volatile T *a, T *c, T v, int, int)                    \
    {                                                                                                                    \
        atomic_sync(a);                                                                                                  \
        if (*a == *c)                                                                                                    \
        {                                                                                                                \
            *a = v;                                                                                                      \
            return 1;                                                                                                    \
        }                                                                                                                \
        *c = *a;                                                                                                         \
        return 0;                                                                                                        \
    }                                                                                                                    \
    extern "C" int __tsan_atomic##bits##_compare_exchange_weak(volatile T *a, T *c, T v, int mo, int fmo)               \
    {                                                                                                                    \
        return __tsan_atomic##bits##_compare_exchange_strong(a, c, v, mo, fmo);                                          \
    }                                                                                                                    \
    extern "C" T __tsan_atomic##bits##_compare_exchange_val(volatile T *a, T c, T v, int, int)                          \
    {                                                                                                                    \
        atomic_sync(a);                                                                                                  \
        T o = *a;                                                                                                        \
        if (o == c)                                                                                                      \
            *a = v;                                                                                                      \
        return o;                                                                                                        \
    }
TSAN_ATOMIC(8, unsigned char)
TSAN_ATOMIC(16, unsigned short)
TSAN_ATOMIC(32, unsigned int)
TSAN_ATOMIC(64, unsigned long)
TSAN_ATOMIC(128, a128)
extern "C" void __tsan_atomic_thread_fence(int) { atomic_sync(&g_default_critical); }
extern "C" void __tsan_atomic_signal_fence(int) {}

// ---------------------------------------------------------------------------------------------
// Blocking primitives of libc / libstdc++ that repo code might start to use (std::mutex, std::call_once,
// function-local statics with dynamic initialisation).  On one OS thread with cooperative members the real
// ones would block the whole process as soon as a preempted member holds them; the repo objects' references
// are renamed (objcopy) to these simulated versions, which wait by yielding and carry happens-before edges.
// Outside multi-member regions they forward to the real primitives.
// ---------------------------------------------------------------------------------------------
#include <pthread.h>
#include <cerrno>
static inline bool sim_sync_active() { return g_in_region && g_nest == 0 && g_T > 1; }
extern "C"
{
    int simw_pthread_mutex_lock(pthread_mutex_t *m)
    {
        if (!sim_sync_active())
            return pthread_mutex_lock(m);
        lock_acquire(m);
        return 0;
    }
    int simw_pthread_mutex_unlock(pthread_mutex_t *m)
    {
        if (!sim_sync_active())
            return pthread_mutex_unlock(m);
        lock_release(m);
        return 0;
    }
    int simw_pthread_mutex_trylock(pthread_mutex_t *m)
    {
        if (!sim_sync_active())
            return pthread_mutex_trylock(m);
        step();
        LockState &L = g_locks[m];
        if (L.holder >= 0)
            return EBUSY;
        L.holder = g_cur->idx;
        for (int k = 0; k < g_T; k++)
            g_cur->vc[k] = std::max(g_cur->vc[k], L.vc[k]);
        return 0;
    }
}

// returns true when the caller has to run the initialiser
static bool once_enter(const void *key)
{
    step();
    for (;;)
    {
        OnceState &o = g_once[key];
        if (o.state == 2)
        {
            LockState &L = g_locks[(void *)key];
            for (int k = 0; k < g_T; k++)
                g_cur->vc[k] = std::max(g_cur->vc[k], L.vc[k]);
            return false;
        }
        if (o.state == 0)
        {
            o.state = 1;
            o.holder = g_cur->idx;
            return true;
        }
        // another member is initialising: wait for it
        int h = o.holder;
        if (h < 0 || h >= g_T || !runnable(g_members[h]))
            fatal("deadlock: one-time initialiser not runnable");
        g_blocking_yield = true;
        yield_to(h);
    }
}
static void once_leave(const void *key, bool done)
{
    OnceState &o = g_once[key];
    o.state = done ? 2 : 0;
    o.holder = -1;
    LockState &L = g_locks[(void *)key];
    memcpy(L.vc, g_cur->vc, sizeof(uint32_t) * g_T);
    g_cur->vc[g_cur->idx]++;
    step();
}
extern "C"
{
    int simw_pthread_once(pthread_once_t *once, void (*fn)(void))
    {
        if (!sim_sync_active())
            return pthread_once(once, fn);
        // keep the real control word consistent for later serial callers: run through the real one when we win
        if (once_enter(once))
        {
            int rc = pthread_once(once, fn);
            once_leave(once, true);
            return rc;
        }
        return 0;
    }
    // Itanium C++ ABI guards of function-local statics: first byte of the guard != 0 means initialised
    int simw___cxa_guard_acquire(uint64_t *g)
    {
        if (*(volatile char *)g)
            return 0;
        if (!sim_sync_active())
            return 1; // serial: nobody else can be initialising
        if (!once_enter(g))
            return 0;
        if (*(volatile char *)g)
        { // initialised meanwhile by a serial path
            once_leave(g, true);
            return 0;
        }
        return 1;
    }
    void simw___cxa_guard_release(uint64_t *g)
    {
        *(volatile char *)g = 1;
        if (sim_sync_active())
            once_leave(g, true);
    }
    void simw___cxa_guard_abort(uint64_t *g)
    {
        if (sim_sync_active())
            once_leave(g, false);
    }
}

// ---------------------------------------------------------------------------------------------
// sections and tasks.  Sections are a work-share of `count` units handed out on demand.  Tasks are executed
// immediately by the encountering member (an implementation may always execute a task undeferred), so
// taskwait / taskgroup have nothing to wait for; taskloop runs its whole range as one task.
// ---------------------------------------------------------------------------------------------
extern "C"
{
    unsigned GOMP_sections_next(void)
    {
        unsigned long long s, e;
        if (!ws_next(&s, &e))
            return 0;
        return (unsigned)s;
    }
    unsigned GOMP_sections_start(unsigned count)
    {
        ws_enter(1, true, 1, (unsigned long long)count + 1, 1, 1);
        return GOMP_sections_next();
    }
    void GOMP_sections_end(void)
    {
        ws_nested_end();
        GOMP_barrier();
    }
    void GOMP_sections_end_nowait(void) { ws_nested_end(); }
    bool GOMP_sections_end_cancel(void)
    {
        ws_nested_end();
        GOMP_barrier();
        return false;
    }
    void GOMP_parallel_sections(void (*fn)(void *), void *data, unsigned num_threads, unsigned count, unsigned flags)
    {
        WorkShare w;
        memset(&w, 0, sizeof w);
        w.kind = 1;
        w.up = true;
        w.next = 1;
        w.end = (unsigned long long)count + 1;
        w.incr = 1;
        w.chunk = 1;
        if (g_in_region)
        {
            std::vector<WorkShare> &stk = ws_nested_stack();
            size_t depth = stk.size();
            stk.push_back(w);
            GOMP_parallel(fn, data, num_threads, flags);
            ws_nested_stack().resize(depth);
            return;
        }
        g_ws.clear();
        g_ws.push_back(w);
        g_ws_preinit = true;
        g_orphan.ws_cur = 0;
        g_orphan.ws_count = 1;
        GOMP_parallel(fn, data, num_threads, flags);
        g_ws_preinit = false;
    }

    static void run_task_now(void (*fn)(void *), void *data, void (*cpyfn)(void *, void *), long arg_size, long arg_align, long *range)
    {
        if (cpyfn || range)
        {
            size_t al = arg_align > 0 ? (size_t)arg_align : 16;
            char *raw = (char *)malloc((size_t)arg_size + al);
            char *arg = (char *)(((uintptr_t)raw + al - 1) & ~(uintptr_t)(al - 1));
            if (cpyfn)
                cpyfn(arg, data);
            else
                memcpy(arg, data, (size_t)arg_size);
            if (range)
            {
                ((long *)arg)[0] = range[0];
                ((long *)arg)[1] = range[1];
            }
            fn(arg);
            free(raw);
        }
        else
            fn(data);
    }
    void GOMP_task(void (*fn)(void *), void *data, void (*cpyfn)(void *, void *), long arg_size, long arg_align, bool, unsigned, void **, int, void *)
    {
        if (g_in_region && g_nest == 0 && g_T > 1)
            step();
        run_task_now(fn, data, cpyfn, arg_size, arg_align, nullptr);
    }
    void GOMP_taskloop(void (*fn)(void *), void *data, void (*cpyfn)(void *, void *), long arg_size, long arg_align, unsigned, unsigned long, int, long start, long end, long)
    {
        long range[2] = {start, end};
        run_task_now(fn, data, cpyfn, arg_size, arg_align, range);
    }
    void GOMP_taskloop_ull(void (*fn)(void *), void *data, void (*cpyfn)(void *, void *), long arg_size, long arg_align, unsigned, unsigned long, int, unsigned long long start, unsigned long long end,
                           unsigned long long)
    {
        long range[2] = {(long)start, (long)end};
        run_task_now(fn, data, cpyfn, arg_size, arg_align, range);
    }
    void GOMP_taskwait(void) {}
    void GOMP_taskwait_depend(void **) {}
    void GOMP_taskyield(void) {}
    void GOMP_taskgroup_start(void) {}
    void GOMP_taskgroup_end(void) {}
    int omp_get_num_teams(void) { return 1; }
    int omp_get_team_num(void) { return 0; }
    int omp_in_final(void) { return 1; }
    int omp_get_ancestor_thread_num(int level) { return level == 0 ? 0 : omp_get_thread_num(); }
    int omp_get_team_size(int level) { return level == 0 ? 1 : omp_get_num_threads(); }
}
