// Self-test of the simulated OpenMP runtime and the race detector on small OpenMP kernels that are
// NOT from the repository: constructs the repository does not use today (dynamic/guided/runtime
// schedules, barrier, critical, single, atomic) must be simulated correctly so that a benign edit of
// the library is not reported, and textbook races must be reported.
// Compiled like a repo unit (-fopenmp -fsanitize=thread, compile only) and linked with simrt.
#include "sim.hpp"
#include <cstdio>
#include <cstdint>
#include <cstring>
#include <vector>
#include <omp.h>
#include <mutex>

static int g_fail = 0;
static int g_replays = 0;
#define EXPECT(cond, msg)                                         \
    do                                                            \
    {                                                             \
        if (!(cond))                                              \
        {                                                         \
            printf("SELFTEST-FAIL %s:%d %s\n", __FILE__, __LINE__, msg); \
            g_fail++;                                             \
        }                                                         \
    } while (0)

struct K
{
    uint64_t *a;
    uint64_t *b;
    long n;
    uint64_t sum;
};

static void k_static(K &k)
{
#pragma omp parallel for schedule(static)
    for (long i = 0; i < k.n; i++)
        k.b[i] = k.a[i] * 3 + 1;
}
static void k_static_chunk_ull(K &k)
{
#pragma omp parallel for schedule(static, 3)
    for (uint64_t i = 0; i < (uint64_t)k.n; i++)
        k.b[i] = k.a[i] * 3 + 1;
}
static void k_dynamic(K &k)
{
#pragma omp parallel for schedule(dynamic, 2)
    for (long i = 0; i < k.n; i++)
        k.b[i] = k.a[i] * 3 + 1;
}
static void k_dynamic_ull(K &k)
{
#pragma omp parallel for schedule(dynamic)
    for (uint64_t i = 0; i < (uint64_t)k.n; i++)
        k.b[i] = k.a[i] * 3 + 1;
}
static void k_guided_down(K &k)
{
#pragma omp parallel for schedule(guided)
    for (long i = k.n - 1; i >= 0; i--)
        k.b[i] = k.a[i] * 3 + 1;
}
static void k_runtime(K &k)
{
#pragma omp parallel for schedule(runtime)
    for (long i = 0; i < k.n; i++)
        k.b[i] = k.a[i] * 3 + 1;
}
static void k_runtime_set_dynamic(K &k)
{
    omp_set_schedule(omp_sched_dynamic, 3);
#pragma omp parallel for schedule(runtime)
    for (uint64_t i = 0; i < (uint64_t)k.n; i++)
        k.b[i] = k.a[i] * 3 + 1;
}
static void k_runtime_set_static(K &k)
{
    omp_set_schedule(omp_sched_static, 0);
#pragma omp parallel for schedule(runtime)
    for (long i = 0; i < k.n; i++)
        k.b[i] = k.a[i] * 3 + 1;
}
static void k_runtime_set_guided(K &k)
{
    omp_set_schedule(omp_sched_guided, 2);
#pragma omp parallel for schedule(runtime)
    for (long i = k.n - 1; i >= 0; i--)
        k.b[i] = k.a[i] * 3 + 1;
}
static std::mutex g_mu;
static void k_std_mutex_sum(K &k)
{
    k.sum = 0;
#pragma omp parallel for schedule(static)
    for (long i = 0; i < k.n; i++)
    {
        std::lock_guard<std::mutex> lock(g_mu); // a preempted holder must not block the whole (single-threaded) process
        k.sum += k.a[i];
    }
}
static uint64_t slow_table_value(const uint64_t *a)
{
    uint64_t v = 0;
    for (int i = 0; i < 6; i++)
        v += a[0] * (uint64_t)(i + 1); // several instrumented accesses: the initialiser can be preempted
    return v / 21 * 3 + 41; // == 3*a[0] + 41 - ... (a[0] = 1 in every case) -> 44
}
static void k_function_static(K &k)
{
#pragma omp parallel for schedule(static)
    for (long i = 0; i < k.n; i++)
    {
        static const uint64_t once_value = slow_table_value(k.a); // guard acquire/release inside the region
        k.b[i] = k.a[i] + once_value;
    }
}
static std::once_flag g_once_flag;
static uint64_t g_once_value;
static void k_call_once(K &k)
{
#pragma omp parallel for schedule(dynamic, 1)
    for (long i = 0; i < k.n; i++)
    {
        std::call_once(g_once_flag, [&] { g_once_value = slow_table_value(k.a); });
        k.b[i] = k.a[i] + g_once_value;
    }
}
static thread_local uint64_t tl_scratch[4];
static uint64_t g_tp_scratch[4];
#pragma omp threadprivate(g_tp_scratch)
static void k_thread_local_scratch(K &k)
{
    // per-thread scratch in thread_local / threadprivate storage: correct code, must not be reported, and a
    // member preempted between the store and the load must find its own value again
#pragma omp parallel for schedule(static)
    for (long i = 0; i < k.n; i++)
    {
        tl_scratch[0] = k.a[i];
        g_tp_scratch[1] = tl_scratch[0] * 3;
        k.b[i] = g_tp_scratch[1] + 1;
    }
}
static void k_sections(K &k)
{
    long h = k.n / 2;
#pragma omp parallel sections
    {
#pragma omp section
        for (long i = 0; i < h; i++)
            k.b[i] = k.a[i] * 3 + 1;
#pragma omp section
        for (long i = h; i < k.n; i++)
            k.b[i] = k.a[i] * 3 + 1;
    }
}
static void k_tasks(K &k)
{
#pragma omp parallel
    {
#pragma omp single
        {
            for (long i = 0; i < k.n; i++)
            {
#pragma omp task firstprivate(i)
                k.b[i] = k.a[i] * 3 + 1;
            }
#pragma omp taskwait
        }
    }
}
static void k_taskloop(K &k)
{
#pragma omp parallel
#pragma omp single
#pragma omp taskloop
    for (long i = 0; i < k.n; i++)
        k.b[i] = k.a[i] * 3 + 1;
}
static void k_two_phase_barrier(K &k)
{
    // phase 1 writes b, barrier, phase 2 reads neighbours of b: ordered by the barrier, no race
#pragma omp parallel
    {
#pragma omp for schedule(static)
        for (long i = 0; i < k.n; i++)
            k.b[i] = k.a[i] + 1;
        // implicit barrier of the for
#pragma omp for schedule(static) nowait
        for (long i = 0; i < k.n; i++)
            k.a[i] = k.b[(i + 1) % k.n] * 2;
    }
}
static void k_two_phase_nowait_race(K &k)
{
#pragma omp parallel
    {
#pragma omp for schedule(static) nowait
        for (long i = 0; i < k.n; i++)
            k.b[i] = k.a[i] + 1;
#pragma omp for schedule(static) nowait
        for (long i = 0; i < k.n; i++)
            k.a[i] = k.b[(i + 1) % k.n] * 2; // reads b[i+1] possibly being written by the neighbour: race
    }
}
static void k_critical_sum(K &k)
{
    k.sum = 0;
#pragma omp parallel for schedule(static)
    for (long i = 0; i < k.n; i++)
    {
#pragma omp critical
        k.sum += k.a[i];
    }
}
static void k_atomic_sum(K &k)
{
    k.sum = 0;
#pragma omp parallel for schedule(dynamic, 1)
    for (long i = 0; i < k.n; i++)
    {
#pragma omp atomic
        k.sum += k.a[i];
    }
}
static void k_racy_sum(K &k)
{
    k.sum = 0;
#pragma omp parallel for schedule(static)
    for (long i = 0; i < k.n; i++)
        k.sum += k.a[i]; // textbook race
}
static void k_single(K &k)
{
#pragma omp parallel
    {
#pragma omp single
        k.sum = 42;
        // implicit barrier after single
#pragma omp for schedule(static)
        for (long i = 0; i < k.n; i++)
            k.b[i] = k.a[i] + k.sum;
    }
}
static void k_shared_scratch_race(K &k)
{
    uint64_t tmp[4]; // hoisted out of the loop: shared by all members
#pragma omp parallel for schedule(static)
    for (long i = 0; i < k.n; i++)
    {
        tmp[0] = k.a[i];
        tmp[1] = tmp[0] * 3;
        k.b[i] = tmp[1] + 1;
    }
}
static void k_false_sharing_bytes(K &k)
{
    // members write different bytes of the same 8-byte word: not a race
    unsigned char *bytes = (unsigned char *)k.b;
#pragma omp parallel for schedule(static, 1)
    for (long i = 0; i < k.n; i++)
        bytes[i] = (unsigned char)(k.a[i] & 0xff);
}

typedef void (*kernel_t)(K &);

struct Case
{
    const char *name;
    kernel_t fn;
    bool expect_race;
    int check; // 0: b[i] == 3a+1   1: two-phase   2: sum   3: single   4: none (racy result)  5: bytes
};

static bool run_case(const Case &c, int strategy, int threads, uint64_t seed, long n, bool &race)
{
    std::vector<uint64_t> a(n), b(n, 0), a0;
    for (long i = 0; i < n; i++)
        a[i] = (uint64_t)(i * 7 + 1);
    a0 = a;
    K k{a.data(), b.data(), n, 0};
    sim::MachineConfig mc;
    mc.nthreads_var = threads;
    mc.thread_limit = 64;
    sim::set_machine(mc);
    sim::OpSim cfg;
    cfg.strategy = strategy;
    cfg.p_log = 1;
    cfg.pct_d = 3;
    cfg.sched_seed = seed;
    cfg.step_estimate = 200;
    cfg.step_limit = 10000000;
    cfg.record_schedule = true;
    sim::begin_op(cfg);
    c.fn(k);
    sim::OpStats st = sim::end_op();
    race = st.race.found;
    // replay equivalence: the recorded decision list must reproduce the same interleaving (same decision
    // hash, same result) for every construct, including barrier / critical / atomic waits and dynamic loops
    if (!st.recorded_truncated)
    {
        std::vector<uint64_t> a2 = a0, b2(n, 0);
        K k2{a2.data(), b2.data(), n, 0};
        sim::set_machine(mc);
        sim::OpSim rc = cfg;
        rc.strategy = sim::ST_REPLAY;
        rc.replay = st.recorded;
        rc.record_schedule = false;
        sim::begin_op(rc);
        c.fn(k2);
        sim::OpStats st2 = sim::end_op();
        EXPECT(st2.sched_hash == st.sched_hash, c.name);
        EXPECT(a2 == a && b2 == b && k2.sum == k.sum, c.name);
        g_replays++;
    }
    bool ok = true;
    switch (c.check)
    {
    case 0:
        for (long i = 0; i < n; i++)
            ok &= b[i] == a0[i] * 3 + 1;
        break;
    case 1:
        for (long i = 0; i < n; i++)
            ok &= a[i] == (a0[(i + 1) % n] + 1) * 2;
        break;
    case 2:
    {
        uint64_t s = 0;
        for (long i = 0; i < n; i++)
            s += a0[i];
        ok = k.sum == s;
        break;
    }
    case 3:
        for (long i = 0; i < n; i++)
            ok &= b[i] == a0[i] + 42;
        break;
    case 6:
        for (long i = 0; i < n; i++)
            ok &= b[i] == a0[i] + 44;
        break;
    case 5:
        for (long i = 0; i < n; i++)
            ok &= ((unsigned char *)b.data())[i] == (unsigned char)(a0[i] & 0xff);
        break;
    default:
        break;
    }
    return ok;
}

int main()
{
    sim::init();
    if (!sim::member_tls_enabled())
        printf("SELFTEST-NOTE per-member TLS is not available on this system (thread_local objects are shared by members)\n");
    static const Case cases[] = {
        {"static", k_static, false, 0},
        {"static_chunk_ull", k_static_chunk_ull, false, 0},
        {"dynamic", k_dynamic, false, 0},
        {"dynamic_ull", k_dynamic_ull, false, 0},
        {"guided_down", k_guided_down, false, 0},
        {"runtime", k_runtime, false, 0},
        {"runtime_set_dynamic", k_runtime_set_dynamic, false, 0},
        {"runtime_set_static", k_runtime_set_static, false, 0},
        {"runtime_set_guided", k_runtime_set_guided, false, 0},
        {"std_mutex_sum", k_std_mutex_sum, false, 2},
        {"function_static", k_function_static, false, 6},
        {"call_once", k_call_once, false, 6},
        {"thread_local_scratch", k_thread_local_scratch, false, 0},
        {"sections", k_sections, false, 0},
        {"tasks", k_tasks, false, 0},
        {"taskloop", k_taskloop, false, 0},
        {"two_phase_barrier", k_two_phase_barrier, false, 1},
        {"two_phase_nowait_race", k_two_phase_nowait_race, true, 4},
        {"critical_sum", k_critical_sum, false, 2},
        {"atomic_sum", k_atomic_sum, false, 2},
        {"racy_sum", k_racy_sum, true, 4},
        {"single", k_single, false, 3},
        {"shared_scratch_race", k_shared_scratch_race, true, 4},
        {"false_sharing_bytes", k_false_sharing_bytes, false, 5},
    };
    int runs = 0;
    for (const Case &c : cases)
    {
        int races = 0, multi = 0;
        for (int strategy = 0; strategy <= 3; strategy++)
            for (int threads : {1, 2, 3, 5, 8, 64})
                for (long n : {1L, 2L, 7L, 33L})
                    for (uint64_t seed = 1; seed <= 3; seed++)
                    {
                        bool race = false;
                        bool ok = run_case(c, strategy, threads, seed * 7919 + n, n, race);
                        runs++;
                        if (!c.expect_race)
                        {
                            EXPECT(ok, c.name);
                            EXPECT(!race, c.name);
                        }
                        if (threads > 1 && n >= 7)
                        {
                            multi++;
                            races += race;
                        }
                    }
        if (c.expect_race)
            EXPECT(races == multi, c.name); // every multi-member execution of a racy kernel must be flagged
    }
    if (g_fail)
    {
        printf("SELFTEST-FAIL %d failures in %d runs\n", g_fail, runs);
        return 1;
    }
    printf("SELFTEST-OMP ok: %d kernel executions, %zu kernels, %d explicit-schedule replays identical\n", runs, sizeof cases / sizeof cases[0], g_replays);
    return 0;
}
