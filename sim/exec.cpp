#include "exec.hpp"
#include "oracle.hpp"
#include "shim.hpp"
#include <cstring>
#include <cstdio>
#include <algorithm>
#include <functional>
#include <memory>
#include <sys/mman.h>
#include <sys/file.h>
#include <fcntl.h>
#include <unistd.h>

using plan::Op;
using plan::Plan;

namespace exec
{
bool g_record = false;
bool g_trace_ops = false;
FILE *g_trace_file = stdout;

// ---------------------------------------------------------------------------------------------
// harness buffers: exact documented extent, 64-byte canaries either side
// ---------------------------------------------------------------------------------------------
// fault misaligned_caller_buffers: callers owe the library only the alignment of an Element (8 bytes)
static bool g_misalign = false;

// fault adjacent_caller_buffers: callers often carve source, destination and scratch out of ONE allocation, so
// that the buffers touch (dst == src + n*ncols).  While a carve area is active, HBufs are consecutive views of it.
struct Carve
{
    uint64_t *base = nullptr;
    size_t cap = 0, used = 0;
    bool backwards = false;
    bool active = false;
};
static Carve g_carve;

struct HBuf
{
    uint64_t *base;
    uint64_t *ptr;
    size_t n;
    std::string name;
    bool view = false;
    HBuf(size_t n_, const char *name_) : n(n_), name(name_)
    {
        if (g_carve.active && g_carve.used + n <= g_carve.cap)
        {
            view = true;
            base = nullptr;
            ptr = g_carve.backwards ? g_carve.base + (g_carve.cap - g_carve.used - n) : g_carve.base + g_carve.used;
            g_carve.used += n;
            return;
        }
        // misaligned: one extra word in front, so the buffer starts at 8 (mod 16); its end still coincides
        // with the end of the block (overruns stay byte-exact, an underrun of <= 8 bytes is not seen)
        size_t pad = g_misalign ? 1 : 0;
        base = (uint64_t *)sim::buf_alloc((n + pad) * 8, name_, false, 0);
        ptr = base + pad;
    }
    ~HBuf()
    {
        if (!view)
            sim::buf_free(base);
    }
    HBuf(const HBuf &) = delete;
    HBuf &operator=(const HBuf &) = delete;
    uint64_t *p() { return ptr; }
    const uint64_t *p() const { return ptr; }
    void fill_zero() { std::fill(ptr, ptr + n, 0); }
    void fill_garbage(uint64_t seed)
    {
        Rng r(seed);
        for (size_t i = 0; i < n; i++)
            ptr[i] = r.next();
    }
    void fill(bool garbage, uint64_t seed)
    {
        if (garbage)
            fill_garbage(seed);
        else
            fill_zero();
    }
    void load(const std::vector<uint64_t> &v, size_t count) { std::copy(v.begin(), v.begin() + count, ptr); }
    std::vector<uint64_t> vec() const { return std::vector<uint64_t>(ptr, ptr + n); }
    bool canary_ok(std::string &what) const { return view ? true : sim::buf_check(base, what); }
};

static uint64_t fnv(const void *data, size_t bytes, uint64_t h = 0xcbf29ce484222325ULL)
{
    const unsigned char *p = (const unsigned char *)data;
    for (size_t i = 0; i < bytes; i++)
    {
        h ^= p[i];
        h *= 0x100000001b3ULL;
    }
    return h;
}
static uint64_t fnv_vec(const std::vector<uint64_t> &v, uint64_t h) { return fnv(v.data(), v.size() * 8, h); }
static uint64_t fnv_str(const std::string &s, uint64_t h) { return fnv(s.data(), s.size(), h); }
static uint64_t fnv_u64(uint64_t v, uint64_t h) { return fnv(&v, 8, h); }

static std::vector<uint64_t> gen_input(int kind, uint64_t rows, uint64_t ncols, uint64_t seed)
{
    std::vector<uint64_t> v(rows * ncols);
    Rng r(derive_seed(seed, 0x494e));
    // representation edges: around 0, p, 2^64, 2^32 and 2^64-2^32 (carry / borrow / "small operand" assumptions of the kernels)
    static const uint64_t edges[] = {0, 1, 2, oracle::P - 2, oracle::P - 1, oracle::P, oracle::P + 1, oracle::P + 2, UINT64_MAX, UINT64_MAX - 1, 0xFFFFFFFFULL, 0x100000000ULL, 0x100000001ULL, 0xFFFFFFFEULL,
                                     0xFFFFFFFEFFFFFFFFULL, 0xFFFFFFFF00000000ULL - 0x100000000ULL, 0x7FFFFFFFFFFFFFFFULL, 0x8000000000000000ULL, 0x8000000000000001ULL, 0xFFFFFFFF80000000ULL};
    switch (kind)
    {
    case plan::IN_RAND:
        for (auto &x : v)
            x = r.next() % oracle::P;
        break;
    case plan::IN_RAND64:
        for (auto &x : v)
            x = r.chance(1, 8) ? oracle::P + r.below(0xFFFFFFFFULL) : r.next();
        break;
    case plan::IN_UNIT:
    {
        uint64_t j0 = rows ? r.below(rows) : 0;
        for (uint64_t c = 0; c < ncols && rows; c++)
            v[((j0 + c) % rows) * ncols + c] = 1;
        break;
    }
    case plan::IN_SMALL:
        for (auto &x : v)
            x = r.below(10);
        break;
    default:
        for (auto &x : v)
            x = r.pick(edges);
    }
    return v;
}

static long first_diff_bits(const std::vector<uint64_t> &a, const std::vector<uint64_t> &b)
{
    if (a.size() != b.size())
        return 0;
    for (size_t i = 0; i < a.size(); i++)
        if (a[i] != b[i])
            return (long)i;
    return -1;
}
static long first_diff_field(const std::vector<uint64_t> &a, const std::vector<uint64_t> &b)
{
    if (a.size() != b.size())
        return 0;
    for (size_t i = 0; i < a.size(); i++)
        if (oracle::red(a[i]) != oracle::red(b[i]))
            return (long)i;
    return -1;
}

// ---------------------------------------------------------------------------------------------
struct Slot
{
    void *o = nullptr;
    uint64_t maxn = 0;
    uint32_t threads = 0;
    int extends = 0;
    uint64_t last_extend_n = 0;
    int extension = 1;
};

struct Ctx
{
    const Plan &plan;
    RunResult res;
    Slot slots[2];
    int op_index = 0;
    bool icv_perturbed = false;
    std::set<std::string> seen_memory;
    uint64_t last_out_digest = 0;
    std::set<std::string> mem_history_keys; // memory findings of the current op that a fresh object under the same schedule does not show
    sim::IcvState host_icv{4, 64, false}; // ICVs as the host application alone would have left them (machine + HOST_ICV ops)
    explicit Ctx(const Plan &p) : plan(p) {}

    void violation(const char *cls, std::vector<std::string> props, const Op &op, const std::string &oracle_name, const std::string &detail)
    {
        Violation v;
        v.cls = cls;
        std::sort(props.begin(), props.end());
        props.erase(std::unique(props.begin(), props.end()), props.end());
        v.props = props;
        v.op_index = op_index;
        v.op_kind = plan::kind_name(op.kind);
        v.oracle = oracle_name;
        v.detail = detail;
        res.violations.push_back(v);
        res.hash = fnv_str(v.cls + "|" + v.oracle + "|" + v.detail, res.hash);
        res.outcome_hash = fnv_str(v.cls + "|" + v.oracle, res.outcome_hash);
    }
};

static const char *prop_of(const Op &op)
{
    switch (op.kind)
    {
    case plan::K_NTT:
        return op.extension > 1 ? "C05" : "C03"; // zero-padding objects are the mechanism behind extendPol
    case plan::K_INTT:
    case plan::K_ROUNDTRIP:
        return op.extension > 1 ? "C05" : "C04";
    case plan::K_EXTEND:
        return "C05";
    case plan::K_MERKLE:
    case plan::K_MERKLE_XCHECK:
        return "C08";
    default:
        return "C17";
    }
}

static sim::OpSim sim_cfg_of(const Op &op)
{
    sim::OpSim c;
    c.strategy = op.strategy;
    c.p_log = op.p_log;
    c.pct_d = op.pct_d;
    c.sched_seed = op.sched_seed;
    c.shortfall = op.shortfall;
    c.dirty_heap = op.dirty_heap;
    c.garbage_seed = op.garbage_seed;
    c.replay = op.schedule;
    c.record_schedule = g_record;
    return c;
}
static sim::OpSim ref_cfg()
{
    sim::OpSim c;
    c.strategy = sim::ST_SERIAL_IDENTITY;
    c.force_single = true;
    c.detect_races = false;
    return c;
}

template <class F>
static sim::OpStats simulate(const sim::OpSim &cfg, F f)
{
    sim::begin_op(cfg);
    f();
    return sim::end_op();
}

static const char *prop_of(const Op &op);
// findings of the heap layer / access seam; apply to every execution (reference runs included)
static std::string memory_key(const std::string &s) { return s.substr(0, s.find(" (pc")); }

// `ref`: statistics of the one-member reference run when `st` is the simulated team execution; a memory
// finding the team execution has and the one-member execution has not is (also) schedule / team dependence
static void account_memory(Ctx &c, const Op &op, const sim::OpStats &st, const char *which, const sim::OpStats *ref = nullptr)
{
    std::set<std::string> ref_keys;
    if (ref)
    {
        for (auto &s : ref->stray)
            ref_keys.insert(memory_key(s));
        for (auto &s : ref->oob)
            ref_keys.insert(memory_key(s));
    }
    for (auto &s : st.stray)
    {
        bool mism = s.compare(0, 10, "mismatched") == 0;
        bool badfree = s.compare(0, 8, "bad-free") == 0;
        std::string key = s;
        if (!c.seen_memory.insert(std::to_string(c.op_index) + key).second)
            continue;
        std::vector<std::string> sprops = {"C18"};
        if (ref && c.mem_history_keys.count(memory_key(s)))
            sprops.push_back("C19"); // only the object with a history shows it
        else if (ref && !mism && !ref_keys.count(memory_key(s)) && st.teams.size() && *std::max_element(st.teams.begin(), st.teams.end()) > 1)
            sprops.push_back("C12");
        c.violation(mism ? "mismatched-free" : badfree ? "bad-free" : "stray-write", sprops, op, std::string("heap layer (") + which + ")", s);
    }
    for (auto &s : st.oob)
    {
        // key without the pc so that the same access from the reference and the simulated run is reported once
        std::string key = s.substr(0, s.find(" (pc"));
        if (!c.seen_memory.insert(std::to_string(c.op_index) + key).second)
            continue;
        bool uaf = s.compare(0, 19, "heap-use-after-free") == 0;
        std::vector<std::string> props = {"C18"};
        if (op.kind != plan::K_DELETE_OBJECT && op.kind != plan::K_HOST_ICV)
            props.push_back(prop_of(op));
        if (ref && c.mem_history_keys.count(key))
            props.push_back("C19"); // a fresh object under the same schedule stays in bounds: earlier calls on this object caused it
        else if (ref && !ref_keys.count(key) && st.teams.size() && *std::max_element(st.teams.begin(), st.teams.end()) > 1)
            props.push_back("C12"); // only the team execution goes out of bounds: its memory effects depend on team / schedule
        c.violation(uaf ? "use-after-free" : "out-of-bounds", props, op, std::string("poison map of the simulated heap (") + which + ")", s);
    }
}

// An application parallel region around library calls: every member of a team of H calls f(h) (h = its index).
// Opened through the simulated runtime like any region of the code under test, so the members are scheduled,
// preempted and race-checked the same way; parallel regions inside the library calls are then nested (a team
// of one each, max-active-levels = 1), and orphaned work-sharing binds to this team, as in a real application.
extern "C" void GOMP_parallel(void (*fn)(void *), void *data, unsigned num_threads, unsigned flags);
extern "C" int omp_get_thread_num(void);
struct HostCall
{
    std::function<void(int)> f;
    std::vector<char> ran;
};
static void host_trampoline(void *p)
{
    HostCall *hc = (HostCall *)p;
    int h = omp_get_thread_num();
    if (h >= 0 && h < (int)hc->ran.size())
    {
        hc->ran[h] = 1;
        hc->f(h);
    }
}
// returns which members really ran (the runtime may deliver a smaller team)
static std::vector<char> host_region(int H, std::function<void(int)> f)
{
    HostCall hc{f, std::vector<char>((size_t)H, 0)};
    GOMP_parallel(host_trampoline, &hc, (unsigned)H, 0);
    return hc.ran;
}

static void account_main(Ctx &c, const Op &op, const sim::OpStats &st, uint64_t min_trip, const sim::OpStats *ref = nullptr)
{
    RunResult &r = c.res;
    if (g_record)
    {
        r.recorded[c.op_index] = st.recorded;
        r.recorded_truncated |= st.recorded_truncated;
    }
    r.regions += st.regions;
    r.steps += st.steps;
    r.serial_steps += st.serial_steps;
    r.switches += st.switches;
    r.sched_hash = fnv_u64(st.sched_hash, r.sched_hash);
    r.hash = fnv_u64(st.sched_hash, r.hash);
    bool multi = false;
    for (size_t i = 0; i < st.teams.size(); i++)
    {
        int T = st.teams[i];
        r.hash = fnv_u64((uint64_t)T, r.hash);
        r.max_team = std::max(r.max_team, T);
        if (T >= 2)
            multi = true;
        if (T == 1)
            r.probes.insert("team==1");
        if (T >= 2 && (uint64_t)T > min_trip)
        {
            r.faults["team_excess_of_work"]++;
            r.probes.insert("team>trip_count");
        }
        if (T >= 2 && (uint64_t)T == min_trip)
            r.probes.insert("team==trip_count");
        if (T >= 2 && (uint64_t)T < min_trip)
            r.probes.insert("team<trip_count");
        if (T >= 64)
            r.probes.insert("team>=64");
        if (T > 64)
            r.probes.insert("team>64");
    }
    if (multi && (st.switches > 0 || op.strategy == sim::ST_SERIAL_PERM || op.strategy == sim::ST_PCT))
        r.nontrivial = true;
    if (st.shortfall_fired)
    {
        r.faults["team_shortfall"] += st.shortfall_fired;
        r.probes.insert("shortfall_fired");
    }
    if (st.limit_capped)
    {
        r.faults["thread_limit_cap"] += st.limit_capped;
        r.probes.insert("limit_capped");
    }
    if (st.switches)
        r.faults["preempt"] += st.switches;
    if (st.stalls)
        r.faults["stall"] += st.stalls;
    if (op.dirty_heap && st.heap_blocks)
        r.faults["dirty_heap"] += st.heap_blocks;
    if (op.dirty_bufs)
        r.faults["dirty_caller_buffers"]++;
    if (op.misaligned_bufs)
        r.faults["misaligned_caller_buffers"]++;
    if (op.adjacent_bufs && (op.kind == plan::K_NTT || op.kind == plan::K_INTT || op.kind == plan::K_ROUNDTRIP || op.kind == plan::K_EXTEND))
        r.faults["adjacent_caller_buffers"]++;
    if (st.nested_regions)
        r.probes.insert("nested_region");
    if (st.max_concurrent >= 3)
        r.probes.insert("three_members_in_flight");
    if (st.race.found)
    {
        char buf[400];
        snprintf(buf, sizeof buf, "region %d (team of %d): member %d %s and member %d %s touch %s without ordering; pcs 0x%x 0x%x", st.race.region, st.race.team, st.race.member_a,
                 st.race.write_a ? "write" : "read", st.race.member_b, st.race.write_b ? "write" : "read", st.race.where.c_str(), st.race.pc_a, st.race.pc_b);
        c.violation("race", {"C12"}, op, "happens-before detector", buf);
    }
    account_memory(c, op, st, "simulated run", ref);
}

static void check_canaries(Ctx &c, const Op &op, std::initializer_list<const HBuf *> bufs, bool is_main)
{
    for (const HBuf *b : bufs)
    {
        if (!b)
            continue;
        std::string what;
        if (!b->canary_ok(what))
            c.violation("stray-write", {"C18", prop_of(op)}, op, is_main ? "canary (simulated run)" : "canary (one-member reference run)", what);
    }
}

// ---------------------------------------------------------------------------------------------
// transforms
// ---------------------------------------------------------------------------------------------
struct TOut
{
    std::vector<uint64_t> out; // final destination contents
    std::vector<uint64_t> mid; // ROUNDTRIP: result of the first call
    std::vector<uint64_t> src_after;
    bool src_checked = false;
    std::vector<uint64_t> noop_before, noop_after;
    sim::OpStats st;
};

static uint64_t *pick_dst(int mode, uint64_t *src, uint64_t *other) { return mode == plan::D_SRC ? src : mode == plan::D_OTHER ? other : nullptr; }

// runs the library call(s) of a transform op on `obj` (or on a fresh object when obj == nullptr)
static TOut run_transform(Ctx &c, const Op &op, void *obj, const sim::OpSim &cfg, bool dirty_bufs, uint64_t gseed, const std::vector<uint64_t> &in, bool is_main)
{
    TOut t;
    const uint64_t ncols = op.ncols;
    const bool noop = (op.kind != plan::K_EXTEND) && (op.n == 0 || ncols == 0);
    const uint64_t rows_in = op.n;
    const uint64_t rows_out = op.kind == plan::K_EXTEND ? op.n_ext : op.n;
    const size_t in_elems = rows_in * ncols, out_elems = rows_out * ncols;

    if (op.kind == plan::K_EXTEND)
    {
        bool inplace = op.dst == plan::D_SRC;
        size_t total_e = (inplace ? out_elems : in_elems) + (inplace ? 0 : out_elems) + (op.buffer ? out_elems : 0);
        HBuf AREA(is_main && op.adjacent_bufs ? total_e : 0, "caller-area");
        if (is_main && op.adjacent_bufs)
            g_carve = Carve{AREA.p(), total_e, 0, (op.garbage_seed & 1) != 0, true};
        HBuf X(inplace ? out_elems : in_elems, inplace ? "inout" : "input");
        X.fill(dirty_bufs, derive_seed(gseed, 1));
        X.load(in, in_elems);
        HBuf O(inplace ? 0 : out_elems, "output");
        O.fill(dirty_bufs, derive_seed(gseed, 2));
        HBuf B(op.buffer ? out_elems : 0, "buffer");
        B.fill(dirty_bufs, derive_seed(gseed, 3));
        g_carve.active = false;
        uint64_t *outp = inplace ? X.p() : O.p();
        t.st = simulate(cfg, [&] {
            void *o = obj ? obj : shim::ntt_new((op.maxn == 0 && op.n == 0) ? 0 : std::max<uint64_t>(op.maxn, std::max<uint64_t>(op.n, 1)), op.obj_threads, op.kind == plan::K_EXTEND ? 1 : op.extension);
            shim::ntt_extendPol(o, outp, X.p(), op.n_ext, op.n, ncols, op.buffer ? B.p() : nullptr, op.nphase, op.nblock);
            if (!obj)
                shim::ntt_delete(o);
        });
        t.out = inplace ? X.vec() : O.vec();
        check_canaries(c, op, {&X, &O, &B, &AREA}, is_main);
        return t;
    }

    // NTT / INTT / ROUNDTRIP
    size_t ext = noop ? std::max<size_t>(in_elems, 8) : in_elems;
    size_t total_n = ext * 2 + (op.buffer ? ext : 0) + (op.kind == plan::K_ROUNDTRIP ? ext : 0) + (op.kind == plan::K_ROUNDTRIP && op.buffer2 ? ext : 0);
    HBuf AREA(is_main && op.adjacent_bufs ? total_n : 0, "caller-area");
    if (is_main && op.adjacent_bufs)
        g_carve = Carve{AREA.p(), total_n, 0, (op.garbage_seed & 1) != 0, true};
    HBuf S(ext, "src");
    S.fill(dirty_bufs, derive_seed(gseed, 1));
    if (!noop)
        S.load(in, in_elems);
    HBuf D(ext, "dst");
    D.fill(dirty_bufs || noop, derive_seed(gseed, 2));
    HBuf B(op.buffer ? ext : 0, "buffer");
    B.fill(dirty_bufs, derive_seed(gseed, 3));
    HBuf D2(op.kind == plan::K_ROUNDTRIP ? ext : 0, "dst2");
    D2.fill(dirty_bufs, derive_seed(gseed, 4));
    HBuf B2(op.kind == plan::K_ROUNDTRIP && op.buffer2 ? ext : 0, "buffer2");
    B2.fill(dirty_bufs, derive_seed(gseed, 5));
    g_carve.active = false;
    if (noop)
    {
        t.noop_before = S.vec();
        auto d = D.vec();
        t.noop_before.insert(t.noop_before.end(), d.begin(), d.end());
    }
    std::vector<uint64_t> src_before = S.vec();
    bool first_inverse = op.kind == plan::K_INTT || (op.kind == plan::K_ROUNDTRIP && op.inverse_first);
    uint64_t *d1 = pick_dst(op.dst, S.p(), D.p());
    uint64_t *r1 = d1 ? d1 : S.p(); // where the first result lives
    uint64_t *d2 = nullptr, *r2 = nullptr;
    if (op.kind == plan::K_ROUNDTRIP)
    {
        d2 = pick_dst(op.dst2, r1, D2.p());
        r2 = d2 ? d2 : r1;
    }
    std::vector<uint64_t> mid;
    t.st = simulate(cfg, [&] {
        void *o = obj ? obj : shim::ntt_new((op.maxn == 0 && op.n == 0) ? 0 : std::max<uint64_t>(op.maxn, std::max<uint64_t>(op.n, 1)), op.obj_threads, op.kind == plan::K_EXTEND ? 1 : op.extension);
        if (first_inverse)
            (op.inv_via_ntt ? shim::ntt_NTT_inverse : shim::ntt_INTT)(o, d1, S.p(), op.n, ncols, op.buffer ? B.p() : nullptr, op.nphase, op.nblock);
        else
            shim::ntt_NTT(o, d1, S.p(), op.n, ncols, op.buffer ? B.p() : nullptr, op.nphase, op.nblock);
        if (op.kind == plan::K_ROUNDTRIP)
        {
            mid.assign(r1, r1 + in_elems);
            if (first_inverse)
                shim::ntt_NTT(o, d2, r1, op.n, ncols, op.buffer2 ? B2.p() : nullptr, op.nphase2, op.nblock2);
            else
                (op.inv_via_ntt ? shim::ntt_NTT_inverse : shim::ntt_INTT)(o, d2, r1, op.n, ncols, op.buffer2 ? B2.p() : nullptr, op.nphase2, op.nblock2);
        }
        if (!obj)
            shim::ntt_delete(o);
    });
    if (noop)
    {
        t.noop_after = S.vec();
        auto d = D.vec();
        t.noop_after.insert(t.noop_after.end(), d.begin(), d.end());
    }
    else
    {
        uint64_t *fin = op.kind == plan::K_ROUNDTRIP ? r2 : r1;
        t.out.assign(fin, fin + in_elems);
        t.mid = mid;
        if (op.kind == plan::K_NTT && op.dst == plan::D_OTHER)
        {
            t.src_checked = true;
            t.src_after = S.vec();
            if (t.src_after != src_before && is_main)
                c.violation("source-modified", {"C03"}, op, "source unchanged when destination is a different buffer",
                            "src word " + std::to_string(first_diff_bits(t.src_after, src_before)) + " changed");
        }
    }
    check_canaries(c, op, {&S, &D, &B, &D2, &B2, &AREA}, is_main);
    return t;
}

// fault nested_call for transforms: every member of an application parallel region of H members runs the same
// transform on its OWN object and its OWN buffers (objects are built before and destroyed after the region by
// the host).  The library's regions are then nested teams of one; each member's result must be the specified
// transform (field equality) and bit-identical to the one-member execution, whatever the other members do
// meanwhile; the members are scheduled, preempted and race-checked like any team.
static void nested_transform(Ctx &c, const Op &op, const std::vector<uint64_t> &in, const std::vector<uint64_t> &expect, const std::vector<uint64_t> &ref_out, const sim::OpSim &mc0)
{
    const int H = op.host_team;
    const uint64_t ncols = op.ncols;
    const bool ext = op.kind == plan::K_EXTEND;
    const uint64_t rows_out = ext ? op.n_ext : op.n;
    const size_t in_elems = op.n * ncols, out_elems = rows_out * ncols;
    const bool inplace = ext ? op.dst == plan::D_SRC : op.dst != plan::D_OTHER;
    g_misalign = op.misaligned_bufs;
    std::vector<std::unique_ptr<HBuf>> Xs, Os, Bs;
    for (int h = 0; h < H; h++)
    {
        Xs.emplace_back(new HBuf(inplace ? out_elems : in_elems, "src(member)"));
        Xs.back()->fill(op.dirty_bufs, derive_seed(op.garbage_seed, 31 + (uint64_t)h));
        Xs.back()->load(in, in_elems);
        Os.emplace_back(new HBuf(inplace ? 0 : out_elems, "dst(member)"));
        Os.back()->fill(op.dirty_bufs, derive_seed(op.garbage_seed, 41 + (uint64_t)h));
        Bs.emplace_back(new HBuf(op.buffer ? out_elems : 0, "buffer(member)"));
        Bs.back()->fill(op.dirty_bufs, derive_seed(op.garbage_seed, 51 + (uint64_t)h));
    }
    g_misalign = false;
    sim::OpSim mc = mc0;
    mc.replay = op.schedule2;
    mc.step_limit = mc0.step_limit * (uint64_t)H + 1000000;
    std::vector<void *> objs((size_t)H, nullptr);
    std::vector<char> ran(1, 1);
    sim::IcvState icv = sim::icv_save();
    sim::OpStats st = simulate(mc, [&] {
        for (int h = 0; h < H; h++)
            objs[h] = shim::ntt_new(std::max<uint64_t>(op.maxn, std::max<uint64_t>(ext ? op.n_ext : op.n, 1)), op.obj_threads, ext ? 1 : op.extension);
        ran = host_region(H, [&](int h) {
            uint64_t *src = Xs[h]->p();
            uint64_t *dst = ext ? (inplace ? src : Os[h]->p()) : pick_dst(op.dst, src, Os[h]->p());
            uint64_t *buf = op.buffer ? Bs[h]->p() : nullptr;
            if (ext)
                shim::ntt_extendPol(objs[h], dst, src, op.n_ext, op.n, ncols, buf, op.nphase, op.nblock);
            else if (op.kind == plan::K_INTT)
                (op.inv_via_ntt ? shim::ntt_NTT_inverse : shim::ntt_INTT)(objs[h], dst, src, op.n, ncols, buf, op.nphase, op.nblock);
            else
                shim::ntt_NTT(objs[h], dst, src, op.n, ncols, buf, op.nphase, op.nblock);
        });
        for (int h = 0; h < H; h++)
            shim::ntt_delete(objs[h]);
    });
    sim::icv_restore(icv);
    c.res.probes.insert("transform_called_from_application_region");
    c.res.faults["nested_call"]++;
    const char *prop = prop_of(op);
    for (int h = 0; h < H; h++)
    {
        if (!ran[h])
            continue;
        std::vector<uint64_t> got = inplace ? Xs[h]->vec() : Os[h]->vec();
        got.resize(out_elems);
        long d = first_diff_field(got, expect);
        if (d >= 0)
            c.violation("nested-call-mismatch", {prop, "C12"}, op, "every member of an application region that runs the transform on its own object and buffers gets the specified result",
                        "member " + std::to_string(h) + ": word " + std::to_string(d) + " wrong");
        else if (first_diff_bits(got, ref_out) >= 0)
            c.violation("single-member-mismatch", {"C12"}, op, "bit-identical to the one-member execution (call made by a member of an application region)",
                        "member " + std::to_string(h) + ": word " + std::to_string(first_diff_bits(got, ref_out)));
        std::string what;
        if (!Xs[h]->canary_ok(what) || !Os[h]->canary_ok(what) || !Bs[h]->canary_ok(what))
            c.violation("stray-write", {"C18", prop}, op, "canary (call made by a member of an application region)", what);
    }
    // schedule / team accounting of the nested execution (races, memory findings); not recorded for replay of
    // the main execution's decision list
    bool rec = g_record;
    g_record = false;
    account_main(c, op, st, 1, nullptr);
    g_record = rec;
    if (g_record)
    {
        c.res.recorded2[c.op_index] = st.recorded;
        c.res.recorded_truncated |= st.recorded_truncated;
    }
}

static void ensure_slot(Ctx &c, const Op &op)
{
    if (op.obj < 0)
        return;
    Slot &s = c.slots[op.obj & 1];
    uint64_t need = std::max<uint64_t>(op.n, 1);
    int want_ext = op.kind == plan::K_EXTEND ? 1 : op.extension;
    if (s.o && (s.maxn < need || s.extension != want_ext))
    {
        // only reachable in hand-edited / minimised plans: rebuild the object large enough
        void *o = s.o;
        sim::OpSim cfg;
        auto st = simulate(cfg, [&] { shim::ntt_delete(o); });
        account_memory(c, op, st, "object destruction");
        s = Slot();
    }
    if (!s.o)
    {
        sim::OpSim cfg;
        cfg.dirty_heap = op.dirty_heap;
        cfg.garbage_seed = derive_seed(op.garbage_seed, 99);
        uint64_t maxn = (op.maxn == 0 && op.n == 0) ? 0 : std::max<uint64_t>(op.maxn, need);
        if (maxn == 0)
            c.res.probes.insert("object_for_maxDomainSize_0");
        void *o = nullptr;
        auto st = simulate(cfg, [&] { o = shim::ntt_new(maxn, op.obj_threads, want_ext); });
        account_memory(c, op, st, "object construction");
        s.o = o;
        s.maxn = maxn;
        s.threads = op.obj_threads;
        s.extension = want_ext;
        if (op.obj_threads == 0)
            c.res.probes.insert(c.icv_perturbed ? "ctor_nThreads0_after_icv_perturb" : "ctor_nThreads0");
    }
    else
        c.res.probes.insert("object_reused");
}

static unsigned ilog2(uint64_t n)
{
    unsigned l = 0;
    while (n > 1)
    {
        n >>= 1;
        l++;
    }
    return l;
}
static uint64_t eff_nphase(uint64_t nphase, unsigned logn)
{
    if (nphase < 1 || logn == 0)
        return 1;
    return nphase > logn ? logn : nphase;
}

static void exec_transform(Ctx &c, const Op &op)
{
    RunResult &r = c.res;
    const bool noop = (op.kind != plan::K_EXTEND) && (op.n == 0 || op.ncols == 0);
    std::vector<uint64_t> in = gen_input(op.input, op.n, op.ncols, op.input_seed);
    if (op.input == plan::IN_RAND64 || op.input == plan::IN_EDGE)
        r.faults["noncanonical_inputs"]++;

    // --- reference: fresh object, one-member team, clean memory, identity order ----------------
    // --- main: the plan's object (shared slot or fresh), simulated team, faults ----------------
    // Normally the reference goes first (its step count sizes the pct change points and the step
    // budget).  With main_first (cold-start runs: the first library code a fresh process executes is
    // the simulated multi-member execution) the order is swapped and the budget is a generous bound,
    // so that lazily initialised process-global state is first touched by a real team.
    TOut ref, m;
    sim::OpSim mc = sim_cfg_of(op);
    auto do_ref = [&] {
        sim::IcvState icv = sim::icv_save();
        sim::OpSim rc = ref_cfg();
        ref = run_transform(c, op, nullptr, rc, false, 0, in, false);
        sim::icv_restore(icv);
        r.ref_steps += ref.st.steps + ref.st.serial_steps;
        account_memory(c, op, ref.st, "one-member reference run");
    };
    sim::IcvState icv_pre = sim::icv_save();
    auto do_main = [&] {
        ensure_slot(c, op);
        void *obj = op.obj < 0 ? nullptr : c.slots[op.obj & 1].o;
        icv_pre = sim::icv_save();
        g_misalign = op.misaligned_bufs;
        m = run_transform(c, op, obj, mc, op.dirty_bufs, op.garbage_seed, in, true);
        g_misalign = false;
    };
    if (op.main_first)
    {
        uint64_t elems = std::max<uint64_t>(op.kind == plan::K_EXTEND ? op.n_ext : op.n, 1) * std::max<uint64_t>(op.ncols, 1);
        mc.step_estimate = elems * 40 + 64;
        mc.step_limit = 2000000000ull;
        r.probes.insert("main_before_reference");
        do_main();
        do_ref();
    }
    else
    {
        do_ref();
        uint64_t B = ref.st.steps + ref.st.serial_steps;
        mc.step_estimate = ref.st.steps;
        // bounded liveness: the one-member work, plus a per-region allowance for what every member does
        // besides its share (reading the shared frame, computing its chunk), for up to 128 members
        mc.step_limit = 8 * B + (uint64_t)ref.st.regions * 128 * 4096 + 1000000;
        do_main();
    }
    uint64_t trip = std::max<uint64_t>(op.kind == plan::K_EXTEND ? op.n : op.n, 1);
    c.mem_history_keys.clear();
    if (op.obj >= 0 && (!m.st.oob.empty() || !m.st.stray.empty()))
    {
        // memory findings of the simulated run that the reference run does not have: team / schedule, or history?
        std::set<std::string> refk, only_main;
        for (auto &x : ref.st.oob)
            refk.insert(memory_key(x));
        for (auto &x : ref.st.stray)
            refk.insert(memory_key(x));
        for (auto &x : m.st.oob)
            if (!refk.count(memory_key(x)))
                only_main.insert(memory_key(x));
        for (auto &x : m.st.stray)
            if (!refk.count(memory_key(x)) && x.compare(0, 10, "mismatched") != 0)
                only_main.insert(memory_key(x));
        if (!only_main.empty())
        {
            sim::IcvState icv_now = sim::icv_save();
            sim::OpSim fc = sim_cfg_of(op);
            fc.step_limit = mc.step_limit;
            fc.step_estimate = mc.step_estimate;
            sim::icv_restore(icv_pre);
            g_misalign = op.misaligned_bufs;
            TOut f = run_transform(c, op, nullptr, fc, op.dirty_bufs, op.garbage_seed, in, false);
            g_misalign = false;
            sim::icv_restore(icv_now);
            std::set<std::string> fk;
            for (auto &x : f.st.oob)
                fk.insert(memory_key(x));
            for (auto &x : f.st.stray)
                fk.insert(memory_key(x));
            for (auto &k : only_main)
                if (!fk.count(k))
                    c.mem_history_keys.insert(k);
        }
    }
    account_main(c, op, m.st, trip, &ref.st);
    c.mem_history_keys.clear();

    // --- probes ---------------------------------------------------------------------------------
    unsigned logn = ilog2(std::max<uint64_t>(op.n, 1));
    if (op.obj >= 0)
    {
        Slot &s = c.slots[op.obj & 1];
        if (op.n && op.n < s.maxn)
            r.probes.insert("size<maxDomain");
        if (op.n == s.maxn)
            r.probes.insert("size==maxDomain");
        if (op.kind == plan::K_EXTEND)
        {
            if (s.extends && s.last_extend_n != op.n)
                r.probes.insert("second_extend_with_different_N");
            s.extends++;
            s.last_extend_n = op.n;
        }
    }
    if (op.kind == plan::K_EXTEND)
    {
        unsigned le = ilog2(op.n_ext);
        if (eff_nphase(op.nphase, le) % 2 == 0 && (op.nblock <= 1 || op.ncols <= 1) && op.n_ext > op.n)
            r.probes.insert("extend_even_nphase_single_block");
        if (op.n == 1)
            r.probes.insert("extend_N==1");
        if (op.n == op.n_ext)
            r.probes.insert("extend_N==N_ext");
        if (op.dst == plan::D_SRC)
            r.probes.insert("extend_in_place");
    }
    else if (!noop)
    {
        uint64_t e = eff_nphase(op.nphase, logn);
        if (e % 2 == 0 && op.dst != plan::D_OTHER && op.nblock <= 1)
            r.probes.insert("even_nphase_in_place");
        if (op.dst == plan::D_NULL && op.nblock > 1 && op.ncols > 1)
            r.probes.insert(op.kind == plan::K_NTT ? "ntt_null_dst_nblock>1" : "intt_null_dst_nblock>1");
        if (op.nphase > logn)
            r.probes.insert("nphase_clamped");
        if (op.nblock > op.ncols)
            r.probes.insert("nblock_clamped");
        if (op.ncols % std::max<uint64_t>(std::min(op.nblock, op.ncols), 1))
            r.probes.insert("nblock_not_dividing_ncols");
        if (logn % e)
            r.probes.insert("nphase_not_dividing_log");
        if (op.n == 1)
            r.probes.insert("size==1");
        if (op.kind != plan::K_NTT && op.inv_via_ntt)
            r.probes.insert("inverse_via_NTT_flag");
        if (op.kind != plan::K_NTT)
            r.probes.insert(logn % e == 1 || e == logn ? "intt_last_pass_width1" : "intt_last_pass_wider");
    }
    else
        r.probes.insert(op.n == 0 ? "noop_size0" : "noop_ncols0");

    // --- oracles --------------------------------------------------------------------------------
    const char *prop = prop_of(op);
    if (noop)
    {
        if (m.noop_before != m.noop_after)
            c.violation("noop-modified", {prop}, op, "size 0 / zero columns is a no-op", "word " + std::to_string(first_diff_bits(m.noop_before, m.noop_after)) + " of src|dst changed");
        r.hash = fnv_vec(m.noop_after, r.hash);
        r.outcome_hash = fnv_vec(m.noop_after, r.outcome_hash);
        c.last_out_digest = 0; // a no-op leaves the (garbage) destination as it was: nothing to compare across fills
        return;
    }
    r.hash = fnv_vec(m.out, r.hash);
    r.outcome_hash = fnv_vec(m.out, r.outcome_hash);
    c.last_out_digest = fnv_vec(m.out, 1);
    std::vector<uint64_t> expect, expect_mid;
    std::string oname;
    std::vector<uint64_t> padded = in;
    if (op.extension > 1 && op.kind != plan::K_EXTEND)
    {
        for (uint64_t row = op.n / (uint64_t)op.extension; row < op.n; row++)
            for (uint64_t cc = 0; cc < op.ncols; cc++)
                padded[row * op.ncols + cc] = 0;
        r.probes.insert("extension_object_used_directly");
    }
    switch (op.kind)
    {
    case plan::K_NTT:
        oracle::dft(expect, padded, op.n, op.ncols);
        oname = op.extension > 1 ? "DFT reference of the zero-padded input (extension object)" : "DFT reference";
        break;
    case plan::K_INTT:
        oracle::idft(expect, padded, op.n, op.ncols);
        oname = op.extension > 1 ? "inverse DFT reference of the zero-padded input (extension object)" : "inverse DFT reference";
        break;
    case plan::K_ROUNDTRIP:
        expect = in;
        if (op.inverse_first)
            oracle::idft(expect_mid, in, op.n, op.ncols);
        else
            oracle::dft(expect_mid, in, op.n, op.ncols);
        oname = "round trip returns the input";
        break;
    default:
        oracle::lde(expect, in, op.n, op.n_ext, op.ncols);
        oname = "LDE reference (interpolate, evaluate on 7*w^k)";
    }
    auto describe = [&](long idx, const std::vector<uint64_t> &got, const std::vector<uint64_t> &want) {
        char buf[200];
        snprintf(buf, sizeof buf, "out[%ld][%ld] = %llu, expected %llu", idx / (long)op.ncols, idx % (long)op.ncols, (unsigned long long)oracle::red(got[idx]), (unsigned long long)oracle::red(want[idx]));
        return std::string(buf);
    };
    long d = first_diff_field(m.out, expect);
    if (d >= 0)
        c.violation("oracle-mismatch", {prop}, op, oname, describe(d, m.out, expect));
    if (op.kind == plan::K_ROUNDTRIP)
    {
        long dm = first_diff_field(m.mid, expect_mid);
        if (dm >= 0)
            c.violation("oracle-mismatch", {op.inverse_first ? "C04" : "C03"}, op, op.inverse_first ? "inverse DFT reference (first half of round trip)" : "DFT reference (first half of round trip)",
                        describe(dm, m.mid, expect_mid));
    }
    long dr = first_diff_field(ref.out, expect);
    if (dr >= 0 && d < 0)
        c.violation("oracle-mismatch", {prop}, op, oname + " [fresh object, one-member team]", describe(dr, ref.out, expect));

    // bitwise agreement with the one-member execution on a fresh object
    long db = first_diff_bits(m.out, ref.out);
    if (db >= 0)
    {
        // attribute: garbage dependence (C18), object-history dependence (C19), dependence on the OpenMP settings
        // earlier library calls left behind (C19 + C12), or team/schedule dependence (C12)
        sim::IcvState icv_after = sim::icv_save();
        sim::OpSim gc = ref_cfg();
        gc.dirty_heap = op.dirty_heap;
        gc.garbage_seed = op.garbage_seed;
        TOut g = run_transform(c, op, nullptr, gc, op.dirty_bufs, op.garbage_seed, in, false);
        sim::OpSim fc = sim_cfg_of(op);
        fc.step_limit = mc.step_limit;
        fc.step_estimate = mc.step_estimate;
        sim::icv_restore(icv_pre); // what the simulated execution saw
        g_misalign = op.misaligned_bufs;
        TOut f = run_transform(c, op, nullptr, fc, op.dirty_bufs, op.garbage_seed, in, false);
        sim::icv_restore(c.host_icv); // what it would have seen had no library call run before it
        TOut h = run_transform(c, op, nullptr, fc, op.dirty_bufs, op.garbage_seed, in, false);
        g_misalign = false;
        sim::icv_restore(icv_after);
        char buf[300];
        snprintf(buf, sizeof buf, "word %ld: simulated %llu vs one-member fresh-object %llu", db, (unsigned long long)m.out[db], (unsigned long long)ref.out[db]);
        if (first_diff_bits(g.out, ref.out) >= 0)
            c.violation("uninitialised-read", {"C18", prop}, op, "result depends on the contents of fresh heap blocks / scratch / destination garbage", buf);
        else if (op.obj >= 0 && first_diff_bits(f.out, m.out) >= 0)
            c.violation("fresh-object-mismatch", {"C19"}, op, "k-th call on the shared object vs the same call on a freshly constructed object", buf);
        else if (first_diff_bits(h.out, m.out) >= 0)
            c.violation("settings-history-mismatch", {"C19", "C12"}, op, "same call, same schedule, but with the OpenMP settings as the host alone left them (no earlier library call)", buf);
        else
            c.violation("single-member-mismatch", {"C12"}, op, "bit-identical to the one-member execution", buf);
    }
    if (op.host_team > 1 && op.kind != plan::K_ROUNDTRIP)
        nested_transform(c, op, in, expect, ref.out, mc);
}

// ---------------------------------------------------------------------------------------------
// merkle
// ---------------------------------------------------------------------------------------------
static void exec_merkle(Ctx &c, const Op &op)
{
    RunResult &r = c.res;
    bool batch = op.variant == shim::MK_BATCH_SEQ || op.variant == shim::MK_BATCH_AVX || op.variant == shim::MK_BATCH_WRAPPER || op.variant == shim::MK_BATCH_AVX512;
    if ((op.variant == shim::MK_AVX512 || op.variant == shim::MK_BATCH_AVX512) && !shim::built_with_avx512())
    {
        r.unsupported_ops++;
        return;
    }
    uint64_t nelem = op.rows * op.cols * op.dim;
    std::vector<uint64_t> in = gen_input(op.input, op.rows, op.cols * op.dim, op.input_seed);
    if (op.input == plan::IN_RAND64 || op.input == plan::IN_EDGE)
        r.faults["noncanonical_inputs"]++;
    uint64_t tsize = shim::tree_num_elements(op.rows);
    uint64_t want_size = 4 * (2 * op.rows - 1);
    if (tsize != want_size)
    {
        c.violation("tree-size", {"C08"}, op, "tree size helper == 4*(2*rows-1)", "helper says " + std::to_string(tsize));
        tsize = std::max(tsize, want_size); // keep the library inside its own buffer for the rest
    }
    auto run = [&](const sim::OpSim &cfg, bool dirty, uint64_t gseed, bool is_main, sim::OpStats &st, std::vector<uint64_t> &root) {
        const int H = (is_main && op.host_team > 1) ? op.host_team : 1;
        // fault adjacent_caller_buffers: input and tree are consecutive parts of one allocation
        HBuf AREA(is_main && op.adjacent_bufs && H == 1 ? nelem + tsize : 0, "caller-area");
        if (is_main && op.adjacent_bufs && H == 1)
            g_carve = Carve{AREA.p(), nelem + tsize, 0, false, true};
        std::vector<std::unique_ptr<HBuf>> Is, Ts;
        for (int h = 0; h < H; h++)
        {
            Is.emplace_back(new HBuf(nelem, h ? "input(member)" : "input"));
            Is.back()->load(in, nelem);
            Ts.emplace_back(new HBuf(tsize, h ? "tree(member)" : "tree"));
            Ts.back()->fill(dirty, derive_seed(gseed, 7 + (uint64_t)h));
        }
        g_carve.active = false;
        HBuf &I = *Is[0], &T = *Ts[0];
        std::vector<char> ran(1, 1);
        if (H == 1)
            st = simulate(cfg, [&] { shim::merkle(op.variant, T.p(), I.p(), op.cols, op.rows, op.batch, op.nthreads, op.dim); });
        else
            st = simulate(cfg, [&] {
                ran = host_region(H, [&](int h) { shim::merkle(op.variant, Ts[h]->p(), Is[h]->p(), op.cols, op.rows, op.batch, op.nthreads, op.dim); });
            });
        root.assign(4, 0);
        shim::tree_root(root.data(), T.p(), tsize);
        check_canaries(c, op, {&I, &T, &AREA}, is_main);
        if (I.vec() != in && is_main)
            c.violation("source-modified", {"C18", "C08"}, op, "input matrix unchanged", "input changed");
        std::vector<uint64_t> t0 = T.vec();
        if (H > 1)
        {
            c.res.probes.insert("called_from_application_region");
            c.res.faults["nested_call"]++;
            if (!ran[0])
                for (int h = 1; h < H; h++)
                    if (ran[h])
                    {
                        t0 = Ts[h]->vec();
                        break;
                    }
            for (int h = 0; h < H; h++)
                if (ran[h] && first_diff_field(Ts[h]->vec(), t0) >= 0)
                    c.violation("nested-call-mismatch", {"C08", "C12"}, op, "every member of an application region that builds its own tree from the same input gets the same tree",
                                "member " + std::to_string(h) + " differs");
        }
        return t0;
    };
    sim::OpStats rst, mst;
    std::vector<uint64_t> rroot, mroot, ref, out;
    sim::OpSim mc = sim_cfg_of(op);
    auto do_ref = [&] {
        sim::IcvState icv = sim::icv_save();
        ref = run(ref_cfg(), false, 0, false, rst, rroot);
        sim::icv_restore(icv);
        r.ref_steps += rst.steps + rst.serial_steps;
        account_memory(c, op, rst, "one-member reference run");
    };
    if (op.main_first)
    {
        mc.step_estimate = (op.rows * (op.cols * op.dim / 8 + 2)) * 6000 + 64;
        mc.step_limit = 4000000000ull;
        r.probes.insert("main_before_reference");
        g_misalign = op.misaligned_bufs;
        out = run(mc, op.dirty_bufs, op.garbage_seed, true, mst, mroot);
        g_misalign = false;
        do_ref();
    }
    else
    {
        do_ref();
        uint64_t B = rst.steps + rst.serial_steps;
        mc.step_estimate = rst.steps;
        mc.step_limit = 8 * B + (uint64_t)rst.regions * 128 * 4096 + 1000000;
        g_misalign = op.misaligned_bufs;
        out = run(mc, op.dirty_bufs, op.garbage_seed, true, mst, mroot);
        g_misalign = false;
    }
    account_main(c, op, mst, op.rows, &rst);
    r.hash = fnv_vec(out, r.hash);
    r.outcome_hash = fnv_vec(out, r.outcome_hash);
    c.last_out_digest = fnv_vec(out, 1);

    if (op.rows == 1)
        r.probes.insert("rows==1");
    if ((op.cols * op.dim) % 8)
        r.probes.insert("rowlen%8!=0");
    if (op.cols * op.dim <= 4)
        r.probes.insert("rowlen<=4_passthrough");
    if (op.cols == 0)
        r.probes.insert("cols==0");
    if (batch && op.cols % op.batch)
        r.probes.insert("batch_not_dividing_cols");
    if (batch && op.batch >= op.cols)
        r.probes.insert("batch>=cols");
    if (op.nthreads == 0)
        r.probes.insert(c.icv_perturbed ? "merkle_nThreads0_after_icv_perturb" : "merkle_nThreads0");
    if (op.dim > 1)
        r.probes.insert("dim>1");
    r.probes.insert(std::string("merkle_variant_") + std::to_string(op.variant));

    std::vector<uint64_t> expect;
    if (batch)
        oracle::merkle_tree_batch(expect, in, op.cols, op.rows, op.batch, op.dim);
    else
        oracle::merkle_tree(expect, in, op.cols, op.rows, op.dim);
    expect.resize(out.size(), 0);
    auto where = [&](long idx) {
        char buf[160];
        uint64_t node = idx / 4;
        snprintf(buf, sizeof buf, "tree element %ld (%s %llu, word %ld)", idx, node < op.rows ? "leaf digest of row" : "inner node", (unsigned long long)(node < op.rows ? node : node - op.rows), idx % 4);
        return std::string(buf);
    };
    long d = first_diff_field(out, expect);
    if (d >= 0)
        c.violation("oracle-mismatch", {"C08"}, op, batch ? "reference batched Poseidon tree" : "reference Poseidon tree", where(d));
    else
    {
        long dr = first_diff_field(ref, expect);
        if (dr >= 0)
            c.violation("oracle-mismatch", {"C08"}, op, "reference Poseidon tree [one-member team]", where(dr));
    }
    std::vector<uint64_t> last4(out.end() - 4, out.end());
    if (mroot != last4)
        c.violation("root-mismatch", {"C08"}, op, "root == last four elements of the tree buffer", "root helper differs");
    long db = first_diff_bits(out, ref);
    if (db >= 0)
    {
        sim::IcvState icv2 = sim::icv_save();
        sim::OpSim gc = ref_cfg();
        gc.dirty_heap = op.dirty_heap;
        gc.garbage_seed = op.garbage_seed;
        sim::OpStats gst;
        std::vector<uint64_t> groot;
        std::vector<uint64_t> g = run(gc, op.dirty_bufs, op.garbage_seed, false, gst, groot);
        sim::icv_restore(icv2);
        std::string det = where(db) + ": simulated vs one-member execution";
        if (first_diff_bits(g, ref) >= 0)
            c.violation("uninitialised-read", {"C18", "C08"}, op, "result depends on the garbage in the tree buffer / heap", det);
        else
            c.violation("single-member-mismatch", {"C12"}, op, "bit-identical to the one-member execution", det);
    }
}

// ---------------------------------------------------------------------------------------------
// bulk cross-backend agreement (C08: "every backend produces the same tree").  One large input, every builder
// of the build, trees compared element-wise as field elements; no reference tree (the % p oracle is ~100x
// slower than the library).  Meant for the uninstrumented flavours, where it pushes ~10^8 permutations through
// the vector kernels: a value-dependent divergence between backends is only ever found by volume.
// ---------------------------------------------------------------------------------------------
static void exec_xcheck(Ctx &c, const Op &op)
{
    RunResult &r = c.res;
    uint64_t nelem = op.rows * op.cols * op.dim;
    std::vector<uint64_t> in = gen_input(op.input, op.rows, op.cols * op.dim, op.input_seed);
    uint64_t tsize = 4 * (2 * op.rows - 1);
    static const int plain_v[] = {shim::MK_SEQ, shim::MK_AVX, shim::MK_WRAPPER, shim::MK_AVX512};
    static const int batch_v[] = {shim::MK_BATCH_SEQ, shim::MK_BATCH_AVX, shim::MK_BATCH_WRAPPER, shim::MK_BATCH_AVX512};
    uint64_t perms = 0;
    for (int fam = 0; fam < 2; fam++)
    {
        std::vector<uint64_t> first;
        int first_v = -1;
        for (int k = 0; k < 4; k++)
        {
            int v = fam ? batch_v[k] : plain_v[k];
            if ((v == shim::MK_AVX512 || v == shim::MK_BATCH_AVX512) && !shim::built_with_avx512())
                continue;
            g_misalign = op.misaligned_bufs;
            HBuf I(nelem, "input");
            I.load(in, nelem);
            HBuf T(tsize, "tree");
            g_misalign = false;
            T.fill_garbage(derive_seed(op.garbage_seed, 7 + (uint64_t)v));
            sim::OpSim cfg = sim_cfg_of(op);
            cfg.detect_races = false;
            sim::OpStats st = simulate(cfg, [&] { shim::merkle(v, T.p(), I.p(), op.cols, op.rows, op.batch, op.nthreads, op.dim); });
            r.regions += st.regions;
            perms += op.rows * ((op.cols * op.dim + 7) / 8) + op.rows;
            std::vector<uint64_t> out = T.vec();
            if (first_v < 0)
            {
                first = out;
                first_v = v;
                r.hash = fnv_vec(out, r.hash);
                r.outcome_hash = fnv_vec(out, r.outcome_hash);
                continue;
            }
            long d = first_diff_field(out, first);
            if (d >= 0)
            {
                char buf[200];
                snprintf(buf, sizeof buf, "tree element %ld (node %ld, word %ld): builder variant %d disagrees with variant %d", d, d / 4, d % 4, v, first_v);
                c.violation("backend-disagreement", {"C08"}, op, "every backend produces the same tree (bulk cross-check)", buf);
            }
        }
    }
    r.faults["bulk_permutations"] += perms;
    r.probes.insert("bulk_cross_backend_check");
    c.last_out_digest = 0;
}

// ---------------------------------------------------------------------------------------------
// parcpy / parSetZero
// ---------------------------------------------------------------------------------------------
static void exec_copy(Ctx &c, const Op &op)
{
    RunResult &r = c.res;
    bool zero = op.kind == plan::K_PARSETZERO;
    std::vector<uint64_t> in = gen_input(plan::IN_RAND64, op.size, 1, op.input_seed);
    const int H = op.host_team > 1 ? op.host_team : 1;
    g_misalign = op.misaligned_bufs;
    std::vector<std::unique_ptr<HBuf>> Ss, Ds;
    for (int h = 0; h < H; h++)
    {
        Ss.emplace_back(new HBuf(zero ? 0 : op.size, h ? "src(member)" : "src"));
        if (!zero)
            Ss.back()->load(in, op.size);
        Ds.emplace_back(new HBuf(op.size, h ? "dst(member)" : "dst"));
        Ds.back()->fill_garbage(derive_seed(op.garbage_seed, 11 + (uint64_t)h) | 1);
        // make sure "garbage" never equals the expected result by accident
        for (uint64_t i = 0; i < op.size; i++)
            if (Ds.back()->p()[i] == (zero ? 0 : in[i]))
                Ds.back()->p()[i] ^= 0x5555;
    }
    g_misalign = false;
    HBuf &S = *Ss[0], &D = *Ds[0];
    sim::OpSim mc = sim_cfg_of(op);
    mc.step_limit = 50ull * op.size * (uint64_t)H + 128ull * 4096 * 4 + 1000000;
    mc.step_estimate = 2 * op.size / 4 + 16;
    std::vector<char> ran(1, 1);
    sim::OpStats st = simulate(mc, [&] {
        auto call = [&](int h) {
            if (zero)
                shim::parsetzero(Ds[h]->p(), op.size, op.threads);
            else
                shim::parcpy(Ds[h]->p(), Ss[h]->p(), op.size, op.threads);
        };
        if (H == 1)
            call(0);
        else
            ran = host_region(H, call);
    });
    if (H > 1)
    {
        r.probes.insert("called_from_application_region");
        r.faults["nested_call"]++;
        std::vector<uint64_t> expect_h = zero ? std::vector<uint64_t>(op.size, 0) : in;
        for (int h = 1; h < H; h++)
        {
            if (!ran[h])
                continue;
            long dh = first_diff_bits(Ds[h]->vec(), expect_h);
            std::string what;
            if (dh >= 0)
                c.violation("oracle-mismatch", {"C17", "C12"}, op, zero ? "zero reference model (call made by a member of an application region)" : "copy reference model (call made by a member of an application region)",
                            "member " + std::to_string(h) + ": dst[" + std::to_string(dh) + "] wrong");
            if (!Ds[h]->canary_ok(what) || !Ss[h]->canary_ok(what))
                c.violation("stray-write", {"C17", "C18"}, op, "nothing outside the size elements is written", what);
        }
        if (!ran[0])
        {
            // member 0 was not delivered (a team of fewer members): nothing was asked of its buffers
            account_main(c, op, st, 1, nullptr);
            c.last_out_digest = 0;
            return;
        }
    }
    int eff = op.threads < 1 ? 1 : op.threads;
    uint64_t comp = (op.size + (uint64_t)eff - 1) / (uint64_t)eff;
    uint64_t trip = comp ? (op.size + comp - 1) / comp : 0;
    std::vector<uint64_t> out = D.vec();
    r.hash = fnv_vec(out, r.hash);
    r.outcome_hash = fnv_vec(out, r.outcome_hash);
    c.last_out_digest = fnv_vec(out, 1);
    if (op.size == 0)
        r.probes.insert("copy_size0");
    if (op.threads < 1)
        r.probes.insert("copy_threads<1");
    if ((uint64_t)eff > op.size && op.size)
        r.probes.insert("copy_threads>size");
    if (op.size && op.size % (uint64_t)eff)
        r.probes.insert("copy_last_chunk_short");
    if (eff >= 1000000)
        r.probes.insert("copy_threads_huge");
    std::vector<uint64_t> expect = zero ? std::vector<uint64_t>(op.size, 0) : in;
    long d = first_diff_bits(out, expect);
    if (d >= 0)
    {
        char buf[160];
        snprintf(buf, sizeof buf, "dst[%ld] = %llu, expected %llu (size %llu, threads %d)", d, (unsigned long long)out[d], (unsigned long long)expect[d], (unsigned long long)op.size, op.threads);
        c.violation("oracle-mismatch", {"C17"}, op, zero ? "zero reference model: exactly size elements zeroed" : "copy reference model: exactly size elements transferred", buf);
    }
    if (!zero && S.vec() != in)
        c.violation("source-modified", {"C17"}, op, "source unchanged", "src changed");
    std::string what;
    if (!D.canary_ok(what) || !S.canary_ok(what))
        c.violation("stray-write", {"C17", "C18"}, op, "nothing outside the size elements is written", what);
    // C12: bit-identical to the one-member execution of the same call (same dirty destination)
    {
        HBuf D1(op.size, "dst(one-member)");
        D1.fill_garbage(derive_seed(op.garbage_seed, 11) | 1);
        for (uint64_t i = 0; i < op.size; i++)
            if (D1.p()[i] == (zero ? 0 : in[i]))
                D1.p()[i] ^= 0x5555;
        sim::IcvState icv1 = sim::icv_save();
        sim::OpStats rst = simulate(ref_cfg(), [&] {
            if (zero)
                shim::parsetzero(D1.p(), op.size, op.threads);
            else
                shim::parcpy(D1.p(), S.p(), op.size, op.threads);
        });
        sim::icv_restore(icv1);
        r.ref_steps += rst.steps + rst.serial_steps;
        account_memory(c, op, rst, "one-member reference run");
        account_main(c, op, st, std::max<uint64_t>(trip, 1), &rst);
        long db = first_diff_bits(out, D1.vec());
        if (db >= 0)
        {
            char buf[200];
            snprintf(buf, sizeof buf, "dst[%ld]: simulated team %llu vs one-member execution %llu (size %llu, threads %d)", db, (unsigned long long)out[db], (unsigned long long)D1.p()[db], (unsigned long long)op.size, op.threads);
            c.violation("single-member-mismatch", {"C12"}, op, "bit-identical to the one-member execution", buf);
        }
    }
}

// ---------------------------------------------------------------------------------------------
// bulk parcpy / parSetZero: >= 2^20 elements of mmap'ed caller memory (plain flavour, thorough C17)
// ---------------------------------------------------------------------------------------------
struct MapBuf
{
    uint64_t *base = nullptr;
    size_t elems = 0, guard = 512; // one page of guard words on each side
    MapBuf(size_t n, bool shared) : elems(n)
    {
        void *p = mmap(nullptr, (n + 2 * guard) * 8, PROT_READ | PROT_WRITE, (shared ? MAP_SHARED : MAP_PRIVATE) | MAP_ANONYMOUS | MAP_NORESERVE, -1, 0);
        base = p == MAP_FAILED ? nullptr : (uint64_t *)p;
        if (base)
            for (size_t i = 0; i < guard; i++)
                base[i] = base[guard + n + i] = 0xC0FFEE0000000000ull + i;
    }
    ~MapBuf()
    {
        if (base)
            munmap(base, (elems + 2 * guard) * 8);
    }
    uint64_t *p() { return base + guard; }
    bool guards_ok() const
    {
        for (size_t i = 0; i < guard; i++)
            if (base[i] != 0xC0FFEE0000000000ull + i || base[guard + elems + i] != 0xC0FFEE0000000000ull + i)
                return false;
        return true;
    }
};
static inline uint64_t big_val(uint64_t i, uint64_t seed)
{
    uint64_t x = (i + 1) * 0x9E3779B97F4A7C15ull ^ seed;
    x ^= x >> 29;
    x *= 0xBF58476D1CE4E5B9ull;
    x ^= x >> 32;
    return x | 1; // never zero
}
static void exec_copy_big(Ctx &c, const Op &op)
{
    RunResult &r = c.res;
    const uint64_t n = op.size;
    const bool giant = n > ((uint64_t)1 << 24);
    int lockfd = -1;
    if (giant)
    {
        // several GiB of resident memory: one such run at a time on the machine
        lockfd = open("/verif/build/.giant-copy.lock", O_CREAT | O_RDWR, 0644);
        if (lockfd >= 0)
            flock(lockfd, LOCK_EX);
    }
    {
        // positions that are filled and checked: everything for ordinary bulk sizes; for giant sizes both ends, the
        // neighbourhood of every 2^32-byte boundary and one element in 8191
        auto sampled = [&](uint64_t i) { return !giant || i < 70000 || i + 70000 >= n || (i % 8191) == 0 || ((i & (((uint64_t)1 << 29) - 1)) < 4096) || ((i & (((uint64_t)1 << 29) - 1)) >= ((uint64_t)1 << 29) - 4096); };
        MapBuf S(op.big_zero ? 1 : n, op.big_shared), D(n, op.big_shared);
        if (!S.base || !D.base)
        {
            r.unsupported_ops++;
            if (lockfd >= 0)
                close(lockfd);
            return;
        }
        for (uint64_t i = 0; i < n; i++)
            if (sampled(i))
            {
                if (!op.big_zero)
                    S.p()[i] = big_val(i, op.input_seed);
                D.p()[i] = big_val(i, op.garbage_seed) ^ 0x5555555555555554ull;
            }
        sim::OpSim cfg = sim_cfg_of(op); // members one after the other (plain flavour), in identity or seeded order; seeded shortfall
        cfg.detect_races = false;
        sim::OpStats st = simulate(cfg, [&] {
            if (op.big_zero)
                shim::parsetzero(D.p(), n, op.threads);
            else
                shim::parcpy(D.p(), S.p(), n, op.threads);
        });
        r.regions += st.regions;
        for (int T : st.teams)
            r.max_team = std::max(r.max_team, T);
        if (st.shortfall_fired)
            r.faults["team_shortfall"] += st.shortfall_fired;
        if (st.limit_capped)
            r.faults["thread_limit_cap"] += st.limit_capped;
        uint64_t h = 0xcbf29ce484222325ULL;
        long bad = -1;
        uint64_t got = 0, want = 0;
        for (uint64_t i = 0; i < n; i++)
            if (sampled(i))
            {
                uint64_t w = op.big_zero ? 0 : big_val(i, op.input_seed);
                if (D.p()[i] != w && bad < 0)
                {
                    bad = (long)i;
                    got = D.p()[i];
                    want = w;
                }
                if (!op.big_zero && S.p()[i] != w && bad < 0)
                {
                    bad = (long)i;
                    got = S.p()[i];
                    want = w;
                }
                h = (h ^ D.p()[i]) * 0x100000001b3ULL;
            }
        r.hash = fnv_u64(h, r.hash);
        r.outcome_hash = fnv_u64(h, r.outcome_hash);
        if (bad >= 0)
        {
            char buf[220];
            snprintf(buf, sizeof buf, "element %ld = %llu, expected %llu (size %llu, threads %d, %s mapping)", bad, (unsigned long long)got, (unsigned long long)want, (unsigned long long)n, op.threads,
                     op.big_shared ? "shared" : "private");
            c.violation("oracle-mismatch", {"C17"}, op, op.big_zero ? "zero reference model: exactly size elements zeroed (bulk)" : "copy reference model: exactly size elements transferred, source unchanged (bulk)", buf);
        }
        if (!D.guards_ok() || !S.guards_ok())
            c.violation("stray-write", {"C17", "C18"}, op, "nothing outside the size elements is written (bulk)", "guard page next to the mapping changed");
        r.faults["bulk_copy_elements"] += n;
        r.probes.insert(op.big_shared ? "bulk_copy_shared_mapping" : "bulk_copy_private_mapping");
        if (giant)
            r.probes.insert("bulk_copy_member_share>=4GiB");
    }
    if (lockfd >= 0)
    {
        flock(lockfd, LOCK_UN);
        close(lockfd);
    }
    c.last_out_digest = 0;
}

// ---------------------------------------------------------------------------------------------
static void delete_slot(Ctx &c, int slot, const Op &op)
{
    Slot &s = c.slots[slot & 1];
    if (!s.o)
        return;
    void *o = s.o;
    sim::OpSim cfg;
    auto st = simulate(cfg, [&] { shim::ntt_delete(o); });
    account_memory(c, op, st, "object destruction");
    c.res.probes.insert(s.extends ? "object_destroyed_after_extend" : "object_destroyed");
    s = Slot();
}

static uint64_t shape_hash_of(const Plan &p)
{
    uint64_t h = 0xcbf29ce484222325ULL;
    for (auto &o : p.ops)
    {
        Op t = o;
        t.input_seed = t.sched_seed = t.garbage_seed = 0;
        t.schedule.clear();
        t.schedule2.clear();
        h = fnv_str(t.to_json().str(), h);
    }
    h = fnv_u64((uint64_t)p.machine.nthreads_var * 1000 + p.machine.thread_limit * 2 + p.machine.dyn, h);
    return h;
}

RunResult run_plan(const Plan &p0, uint64_t garbage_salt)
{
    Plan p = p0;
    if (garbage_salt)
        for (auto &o : p.ops)
            o.garbage_seed ^= garbage_salt;
    Ctx c(p);
    c.res.hash = fnv_str(p.to_json().str(), 0xcbf29ce484222325ULL);
    c.res.outcome_hash = c.res.hash;
    c.res.shape_hash = shape_hash_of(p);
    c.res.sched_hash = 0xcbf29ce484222325ULL;
    sim::set_machine(p.machine);
    c.host_icv = sim::icv_save();
    if (p.fault_free)
        c.res.probes.insert("fault_free_configuration");
    for (size_t i = 0; i < p.ops.size(); i++)
    {
        const Op &op = p.ops[i];
        c.op_index = (int)i;
        c.res.ops++;
        uint64_t hash_before = c.res.hash;
        (void)hash_before;
        c.res.kinds.push_back(plan::kind_name(op.kind));
        if (g_trace_ops)
        {
            fprintf(g_trace_file, "O %zu %s\n", i, plan::kind_name(op.kind));
            fflush(g_trace_file);
        }
        switch (op.kind)
        {
        case plan::K_NTT:
        case plan::K_INTT:
        case plan::K_ROUNDTRIP:
        case plan::K_EXTEND:
            exec_transform(c, op);
            break;
        case plan::K_MERKLE:
            exec_merkle(c, op);
            break;
        case plan::K_MERKLE_XCHECK:
            exec_xcheck(c, op);
            break;
        case plan::K_PARCPY:
        case plan::K_PARSETZERO:
            exec_copy(c, op);
            break;
        case plan::K_COPY_BIG:
            exec_copy_big(c, op);
            break;
        case plan::K_HOST_ICV:
            sim::host_set_icv(op.icv_nthreads, op.icv_dyn, op.icv_limit);
            if (op.icv_nthreads > 0)
                c.host_icv.nthreads_var = op.icv_nthreads;
            if (op.icv_dyn >= 0)
                c.host_icv.dyn = op.icv_dyn != 0;
            if (op.icv_limit > 0)
                c.host_icv.thread_limit = op.icv_limit;
            c.icv_perturbed = true;
            c.res.faults["icv_perturb"]++;
            break;
        case plan::K_DELETE_OBJECT:
            delete_slot(c, op.obj < 0 ? 0 : op.obj, op);
            break;
        }
        c.res.op_digest.push_back(c.last_out_digest);
        c.last_out_digest = 0;
    }
    Op endop;
    endop.kind = plan::K_DELETE_OBJECT;
    if (g_trace_ops)
    {
        fprintf(g_trace_file, "O %zu END\n", p.ops.size());
        fflush(g_trace_file);
    }
    c.op_index = (int)p.ops.size();
    for (int s = 0; s < 2; s++)
        delete_slot(c, s, endop);
    c.res.hash = fnv_u64(c.res.violations.size(), c.res.hash);
    c.res.outcome_hash = fnv_u64(c.res.violations.size(), c.res.outcome_hash);
    return c.res;
}

RunResult run_plan_checked(const Plan &p)
{
    RunResult r = run_plan(p, 0);
    if (!p.garbage_differential)
        return r;
    RunResult r2 = run_plan(p, 0x5bd1e9955bd1e995ULL);
    r.ref_steps += r2.steps + r2.ref_steps;
    r.probes.insert("garbage_differential_run");
    for (size_t i = 0; i < r.op_digest.size() && i < r2.op_digest.size(); i++)
        if (r.op_digest[i] != r2.op_digest[i])
        {
            Violation v;
            v.cls = "uninitialised-read";
            const Op &op = p.ops[i];
            v.props = {"C18"};
            v.op_index = (int)i;
            v.op_kind = plan::kind_name(op.kind);
            v.oracle = "outputs identical under two different garbage fills of fresh heap blocks, scratch and destination buffers";
            v.detail = "the op's output differs between the two fills";
            r.violations.push_back(v);
            r.hash = fnv_str(v.cls + v.oracle, r.hash);
            r.outcome_hash = fnv_str(v.cls + v.oracle, r.outcome_hash);
            break;
        }
    return r;
}

js::Value result_json(const RunResult &r, bool with_detail)
{
    using js::Value;
    Value v = Value::Obj();
    v.set("ok", Value::Bool(r.violations.empty()));
    v.set("hash", Value::U(r.hash));
    v.set("ohash", Value::U(r.outcome_hash));
    Value viol = Value::Arr();
    for (auto &x : r.violations)
    {
        Value e = Value::Obj();
        e.set("cls", Value::S(x.cls));
        Value ps = Value::Arr();
        for (auto &p : x.props)
            ps.push(Value::S(p));
        e.set("props", ps);
        e.set("op", Value::I(x.op_index)).set("kind", Value::S(x.op_kind)).set("oracle", Value::S(x.oracle));
        if (with_detail)
            e.set("detail", Value::S(x.detail));
        viol.push(e);
    }
    v.set("viol", viol);
    v.set("ops", Value::I(r.ops)).set("regions", Value::I(r.regions)).set("steps", Value::U(r.steps)).set("serial_steps", Value::U(r.serial_steps)).set("ref_steps", Value::U(r.ref_steps));
    v.set("switches", Value::U(r.switches)).set("max_team", Value::I(r.max_team)).set("nontrivial", Value::Bool(r.nontrivial));
    v.set("shape", Value::U(r.shape_hash)).set("sched", Value::U(r.sched_hash));
    Value f = Value::Obj();
    for (auto &kv : r.faults)
        f.set(kv.first, Value::U(kv.second));
    v.set("faults", f);
    Value pr = Value::Arr();
    for (auto &s : r.probes)
        pr.push(Value::S(s));
    v.set("probes", pr);
    Value k = Value::Arr();
    for (auto &s : r.kinds)
        k.push(Value::S(s));
    v.set("kinds", k);
    if (r.unsupported_ops)
        v.set("unsupported_ops", Value::I(r.unsupported_ops));
    return v;
}

bool init(std::string &err)
{
    oracle::set_poseidon_tables(shim::poseidon_C(), shim::poseidon_S(), shim::poseidon_M(), shim::poseidon_P());
    err = oracle::selfcheck();
    return err.empty();
}
} // namespace exec
