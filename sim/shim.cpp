// compiled with the same flags / instrumentation / objcopy redirection as the repo sources
#include "shim.hpp"
#include "goldilocks_base_field.hpp"
#include "poseidon_goldilocks.hpp"
#include "ntt_goldilocks.hpp"
#include "merklehash_goldilocks.hpp"

namespace shim
{
static inline Goldilocks::Element *E(uint64_t *p) { return reinterpret_cast<Goldilocks::Element *>(p); }
static inline const Goldilocks::Element *E(const uint64_t *p) { return reinterpret_cast<const Goldilocks::Element *>(p); }
static_assert(sizeof(Goldilocks::Element) == 8, "Element is one 64-bit word");

bool built_with_avx512()
{
#ifdef __AVX512__
    return true;
#else
    return false;
#endif
}

void *ntt_new(uint64_t maxDomainSize, uint32_t nThreads, int extension) { return new NTT_Goldilocks(maxDomainSize, nThreads, extension); }
void ntt_delete(void *o) { delete static_cast<NTT_Goldilocks *>(o); }
void ntt_NTT(void *o, uint64_t *dst, uint64_t *src, uint64_t size, uint64_t ncols, uint64_t *buffer, uint64_t nphase, uint64_t nblock)
{
    static_cast<NTT_Goldilocks *>(o)->NTT(E(dst), E(src), size, ncols, E(buffer), nphase, nblock);
}
void ntt_INTT(void *o, uint64_t *dst, uint64_t *src, uint64_t size, uint64_t ncols, uint64_t *buffer, uint64_t nphase, uint64_t nblock)
{
    static_cast<NTT_Goldilocks *>(o)->INTT(E(dst), E(src), size, ncols, E(buffer), nphase, nblock);
}
void ntt_NTT_inverse(void *o, uint64_t *dst, uint64_t *src, uint64_t size, uint64_t ncols, uint64_t *buffer, uint64_t nphase, uint64_t nblock)
{
    static_cast<NTT_Goldilocks *>(o)->NTT(E(dst), E(src), size, ncols, E(buffer), nphase, nblock, true);
}
void ntt_extendPol(void *o, uint64_t *output, uint64_t *input, uint64_t N_Extended, uint64_t N, uint64_t ncols, uint64_t *buffer, uint64_t nphase, uint64_t nblock)
{
    static_cast<NTT_Goldilocks *>(o)->extendPol(E(output), E(input), N_Extended, N, ncols, E(buffer), nphase, nblock);
}

bool merkle(int variant, uint64_t *tree, uint64_t *input, uint64_t num_cols, uint64_t num_rows, uint64_t batch_size, int nThreads, uint64_t dim)
{
    switch (variant)
    {
    case MK_SEQ:
        PoseidonGoldilocks::merkletree_seq(E(tree), E(input), num_cols, num_rows, nThreads, dim);
        return true;
    case MK_AVX:
        PoseidonGoldilocks::merkletree_avx(E(tree), E(input), num_cols, num_rows, nThreads, dim);
        return true;
    case MK_BATCH_SEQ:
        PoseidonGoldilocks::merkletree_batch_seq(E(tree), E(input), num_cols, num_rows, batch_size, nThreads, dim);
        return true;
    case MK_BATCH_AVX:
        PoseidonGoldilocks::merkletree_batch_avx(E(tree), E(input), num_cols, num_rows, batch_size, nThreads, dim);
        return true;
    case MK_WRAPPER:
        PoseidonGoldilocks::merkletree(E(tree), E(input), num_cols, num_rows, nThreads, dim);
        return true;
    case MK_BATCH_WRAPPER:
        PoseidonGoldilocks::merkletree_batch(E(tree), E(input), num_cols, num_rows, batch_size, nThreads, dim);
        return true;
#ifdef __AVX512__
    case MK_AVX512:
        PoseidonGoldilocks::merkletree_avx512(E(tree), E(input), num_cols, num_rows, nThreads, dim);
        return true;
    case MK_BATCH_AVX512:
        PoseidonGoldilocks::merkletree_batch_avx512(E(tree), E(input), num_cols, num_rows, batch_size, nThreads, dim);
        return true;
#endif
    default:
        return false;
    }
}
uint64_t tree_num_elements(uint64_t rows) { return MerklehashGoldilocks::getTreeNumElements(rows); }
void tree_root(uint64_t *root4, uint64_t *tree, uint64_t numElementsTree) { MerklehashGoldilocks::root(E(root4), E(tree), numElementsTree); }

void parcpy(uint64_t *dst, const uint64_t *src, uint64_t size, int nthreads) { Goldilocks::parcpy(E(dst), E(src), size, nthreads); }
void parsetzero(uint64_t *dst, uint64_t size, int nthreads) { Goldilocks::parSetZero(E(dst), size, nthreads); }

const uint64_t *poseidon_C() { return reinterpret_cast<const uint64_t *>(&PoseidonGoldilocksConstants::C[0]); }
const uint64_t *poseidon_S() { return reinterpret_cast<const uint64_t *>(&PoseidonGoldilocksConstants::S[0]); }
const uint64_t *poseidon_M() { return reinterpret_cast<const uint64_t *>(&PoseidonGoldilocksConstants::M[0][0]); }
const uint64_t *poseidon_P() { return reinterpret_cast<const uint64_t *>(&PoseidonGoldilocksConstants::P[0][0]); }
void hash_full_result_seq(uint64_t *state12, const uint64_t *input12) { PoseidonGoldilocks::hash_full_result_seq(E(state12), E(input12)); }
} // namespace shim
