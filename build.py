#!/usr/bin/env python3
"""Builds the simulator binaries gsim-<flavour> from /repo's CURRENT working tree.

Flavours
  tsh-avx2 / tsh-avx512   repo sources compiled -O3 -fopenmp -fsanitize=thread (compile only: the
                          __tsan_* callbacks are implemented by sim/simrt.cpp = access seam),
                          mem*/allocation symbols of the repo objects renamed to simw_* with objcopy,
                          linked against sim/simrt.cpp instead of libgomp.
  asan-avx2 / asan-avx512 repo sources compiled -O1 -fopenmp -fsanitize=address,undefined; only
                          mem* renamed (preemption points); ASan's allocator is the heap.
  plain-avx2              as shipped (-O3 -fopenmp -mavx2), no instrumentation, for valgrind.

The object cache is keyed by a content hash of /repo/src, the flags and the simulator sources, so an
edited tree is always rebuilt.
"""
import hashlib, json, os, re, shutil, subprocess, sys, glob, time

VERIF = os.path.dirname(os.path.abspath(__file__))
REPO = os.environ.get("VERIF_REPO", "/repo")
SIM = os.path.join(VERIF, "sim")
BUILD = os.path.join(VERIF, "build")
CXX = "g++"

HARNESS_SRCS = ["simrt.cpp", "oracle.cpp", "plan.cpp", "exec.cpp", "main.cpp"]
REDEFINE_MEM = {"memcpy": "simw_memcpy", "memset": "simw_memset", "memmove": "simw_memmove",
                # blocking primitives: simulated (wait by yielding, happens-before edges) inside multi-member regions
                "pthread_mutex_lock": "simw_pthread_mutex_lock", "pthread_mutex_unlock": "simw_pthread_mutex_unlock", "pthread_mutex_trylock": "simw_pthread_mutex_trylock",
                "pthread_once": "simw_pthread_once", "__cxa_guard_acquire": "simw___cxa_guard_acquire", "__cxa_guard_release": "simw___cxa_guard_release",
                "__cxa_guard_abort": "simw___cxa_guard_abort"}
REDEFINE_HEAP = {"malloc": "simw_malloc", "free": "simw_free", "calloc": "simw_calloc", "realloc": "simw_realloc",
                 "_Znwm": "simw_Znwm", "_Znam": "simw_Znam", "_ZdlPv": "simw_ZdlPv", "_ZdlPvm": "simw_ZdlPvm",
                 "_ZdaPv": "simw_ZdaPv", "_ZdaPvm": "simw_ZdaPvm"}

NOBUILTIN = ["-fno-builtin-memcpy", "-fno-builtin-memset", "-fno-builtin-memmove"]
FLAVOURS = {
    "tsh-avx2": dict(repo=["-O3", "-g1", "-fopenmp", "-mavx2", "-fsanitize=thread"] + NOBUILTIN, harness=[], link=[], heap=True),
    "tsh-avx512": dict(repo=["-O3", "-g1", "-fopenmp", "-mavx2", "-mavx512f", "-D__AVX512__", "-fsanitize=thread"] + NOBUILTIN, harness=[], link=[], heap=True),
    "asan-avx2": dict(repo=["-O1", "-g1", "-fopenmp", "-mavx2", "-fsanitize=address,undefined", "-fno-sanitize=vla-bound", "-fno-sanitize-recover=all", "-fno-omit-frame-pointer"] + NOBUILTIN,
                      harness=["-DSIM_ASAN", "-fsanitize=address"], link=["-fsanitize=address,undefined"], heap=False),
    "asan-avx512": dict(repo=["-O1", "-g1", "-fopenmp", "-mavx2", "-mavx512f", "-D__AVX512__", "-fsanitize=address,undefined", "-fno-sanitize=vla-bound", "-fno-sanitize-recover=all", "-fno-omit-frame-pointer"] + NOBUILTIN,
                        harness=["-DSIM_ASAN", "-fsanitize=address"], link=["-fsanitize=address,undefined"], heap=False),
    # diagnostic only (tools/coverage.sh): line coverage of the repo sources under the simulated workloads
    "cov-avx512": dict(repo=["-O1", "-g1", "-fopenmp", "-mavx2", "-mavx512f", "-D__AVX512__", "--coverage"] + NOBUILTIN, harness=["-DSIM_PLAIN"], link=["--coverage"], heap=False),
    "plain-avx512": dict(repo=["-O3", "-g1", "-fopenmp", "-mavx2", "-mavx512f", "-D__AVX512__"] + NOBUILTIN, harness=["-DSIM_PLAIN"], link=[], heap=False),
    "plain-avx2": dict(repo=["-O3", "-g1", "-fopenmp", "-mavx2"] + NOBUILTIN, harness=["-DSIM_PLAIN"], link=[], heap=False),
}
ALLOWED_UNDEF = re.compile(r"^(simw_|_ZNSo|_ZNSi|_ZNSs|_ZNKSs|__tsan_|__asan_|__ubsan_|__gmp|GOMP_|omp_|_ZSt|_ZNSt|_ZNKSt|_ZTV|_ZTI|_ZTS|__cxa_|__gxx_personality|_Unwind_|__assert_fail|exit$|_exit$|abort$|__stack_chk_fail|__dso_handle|_GLOBAL_OFFSET_TABLE_|floor$|strlen$|memcmp$|_ZdlPv|_Znwm|_Znam|_ZdaPv|__cxa|_ZN9__gnu_cxx|__dynamic_cast|_ITM_|__libc_single_threaded)")


def sh(cmd, **kw):
    return subprocess.run(cmd, stdout=subprocess.PIPE, stderr=subprocess.STDOUT, text=True, **kw)


def file_hash(paths, extra=""):
    h = hashlib.sha256()
    h.update(extra.encode())
    for p in sorted(paths):
        h.update(p.encode())
        with open(p, "rb") as f:
            h.update(f.read())
    return h.hexdigest()[:20]


def repo_sources():
    srcs = sorted(glob.glob(os.path.join(REPO, "src", "*.cpp")))
    hdrs = sorted(glob.glob(os.path.join(REPO, "src", "*.hpp")) + glob.glob(os.path.join(REPO, "src", "*.h")))
    return srcs, hdrs


def cpu_has_avx512():
    try:
        return " avx512f " in (" " + open("/proc/cpuinfo").read().replace("\n", " ") + " ")
    except Exception:
        return False


def compile_parallel(jobs):
    """jobs: list of (cmd, label). Runs up to 16 at once; returns (ok, log)"""
    procs = []
    log = []
    ok = True
    maxpar = os.cpu_count() or 4
    pending = list(jobs)
    running = []
    while pending or running:
        while pending and len(running) < maxpar:
            cmd, label = pending.pop(0)
            running.append((subprocess.Popen(cmd, stdout=subprocess.PIPE, stderr=subprocess.STDOUT, text=True), label, cmd))
        p, label, cmd = running.pop(0)
        out, _ = p.communicate()
        if p.returncode != 0:
            ok = False
            log.append("FAILED: %s\n%s\n%s" % (label, " ".join(cmd), out))
        elif out.strip():
            log.append("%s: %s" % (label, out.strip()[:2000]))
    return ok, "\n".join(log)


def harness_objects(flavour):
    """Objects that do not depend on /repo; cached by simulator-source hash."""
    fl = FLAVOURS[flavour]
    srcs = [os.path.join(SIM, s) for s in HARNESS_SRCS if os.path.exists(os.path.join(SIM, s))]
    hdrs = glob.glob(os.path.join(SIM, "*.hpp"))
    key = file_hash(srcs + hdrs, "harness" + " ".join(fl["harness"]))
    d = os.path.join(BUILD, "harness-%s-%s" % (flavour.split("-")[0], key))
    objs = [os.path.join(d, os.path.basename(s) + ".o") for s in srcs]
    if all(os.path.exists(o) for o in objs):
        return objs, ""
    os.makedirs(d, exist_ok=True)
    jobs = []
    for s, o in zip(srcs, objs):
        jobs.append(([CXX, "-std=c++17", "-O2", "-g1", "-Wall", "-fno-omit-frame-pointer"] + fl["harness"] + ["-I" + SIM, "-c", s, "-o", o], os.path.basename(s)))
    ok, log = compile_parallel(jobs)
    if not ok:
        shutil.rmtree(d, ignore_errors=True)
        raise RuntimeError("harness compile failed:\n" + log)
    return objs, log


def audit(objs_dir, repo_objs, flavour):
    """Blind-spot audit: external calls that are not instrumented, asm with memory effects."""
    info = {"uninstrumented_external_symbols": [], "asm_with_memory_effects": []}
    defined = set()
    for o in repo_objs:
        for line in sh(["nm", "--defined-only", o]).stdout.splitlines():
            if line.split():
                defined.add(line.split()[-1])
    for o in repo_objs:
        out = sh(["nm", "-u", o]).stdout
        for line in out.splitlines():
            sym = line.split()[-1]
            if sym in defined:
                continue
            if flavour.startswith("asan") and sym in REDEFINE_HEAP:
                continue  # ASan's allocator interposes these
            if not ALLOWED_UNDEF.match(sym):
                info["uninstrumented_external_symbols"].append(os.path.basename(o) + ":" + sym)
    srcs, hdrs = repo_sources()
    pat = re.compile(r"(__asm__|asm)\s*(volatile)?\s*\(", re.S)
    for f in srcs + hdrs:
        txt = open(f, errors="replace").read()
        for m in pat.finditer(txt):
            # take the statement up to the closing ");"
            end = txt.find(");", m.start())
            stmt = txt[m.start(): end if end > 0 else m.start() + 400]
            if '"memory"' in stmt or re.search(r'"[=+]m"', stmt):
                info["asm_with_memory_effects"].append("%s:%d" % (os.path.basename(f), txt.count("\n", 0, m.start()) + 1))
    return info


def build(flavour, verbose=False):
    """Returns (path_to_binary, info dict). Raises RuntimeError(kind, text) on failure."""
    fl = FLAVOURS[flavour]
    srcs, hdrs = repo_sources()
    shim_src = os.path.join(SIM, "shim.cpp")
    shim_hdr = os.path.join(SIM, "shim.hpp")
    hobjs, hlog = harness_objects(flavour)
    key = file_hash(srcs + hdrs + [shim_src, shim_hdr] + [__file__], flavour + " ".join(fl["repo"]) + "|".join(hobjs))
    d = os.path.join(BUILD, "%s-%s" % (flavour, key))
    binp = os.path.join(d, "gsim")
    infop = os.path.join(d, "info.json")
    if os.path.exists(binp) and os.path.exists(infop):
        info = json.load(open(infop))
        info["cached"] = True
        return binp, info
    t0 = time.time()
    # drop older builds of this flavour (disk is limited) -- but never one that may still be in use by
    # another check running at the same time (e.g. against a scratch tree): keep the 4 newest and
    # everything younger than two hours
    olds = sorted((o for o in glob.glob(os.path.join(BUILD, flavour + "-*")) if o != d), key=lambda o: os.path.getmtime(o), reverse=True)
    for old in olds[4:]:
        if time.time() - os.path.getmtime(old) > 7200:
            shutil.rmtree(old, ignore_errors=True)
    os.makedirs(d, exist_ok=True)
    jobs = []
    robjs = []
    for s in srcs + [shim_src]:
        o = os.path.join(d, os.path.basename(s) + ".o")
        robjs.append(o)
        jobs.append(([CXX, "-std=c++17", "-Wall", "-pthread"] + fl["repo"] + ["-I" + os.path.join(REPO, "src"), "-I" + SIM, "-c", s, "-o", o], os.path.basename(s)))
    ok, log = compile_parallel(jobs)
    if not ok:
        shutil.rmtree(d, ignore_errors=True)
        raise RuntimeError("compile", log)
    table = dict(REDEFINE_MEM)
    if fl["heap"]:
        table.update(REDEFINE_HEAP)
    tpath = os.path.join(d, "redefine.txt")
    with open(tpath, "w") as f:
        for a, b in table.items():
            f.write("%s %s\n" % (a, b))
    for o in robjs:
        r = sh(["objcopy", "--redefine-syms=" + tpath, o])
        if r.returncode != 0:
            shutil.rmtree(d, ignore_errors=True)
            raise RuntimeError("objcopy", r.stdout)
    r = sh([CXX, "-no-pie", "-o", binp] + hobjs + robjs + fl["link"] + ["-lgmp"])
    if r.returncode != 0:
        txt = r.stdout
        shutil.rmtree(d, ignore_errors=True)
        m = re.findall(r"undefined reference to `((?:GOMP|omp|GOACC)_[A-Za-z0-9_]+)'", txt)
        if m:
            raise RuntimeError("unsupported-openmp", "unsupported OpenMP construct " + ", ".join(sorted(set(m))))
        raise RuntimeError("link", txt[-4000:])
    info = audit(d, robjs, flavour)
    info.update({"flavour": flavour, "build_s": round(time.time() - t0, 2), "repo_flags": fl["repo"], "repo_units": [os.path.basename(s) for s in srcs],
                 "tree_hash": file_hash(srcs + hdrs), "cached": False})
    json.dump(info, open(infop, "w"), indent=1)
    return binp, info


def selftest():
    """Simulator self-test on OpenMP kernels that are not from the repository (sim/selftest_omp.cpp)."""
    hobjs, _ = harness_objects("tsh-avx2")
    simrt = [o for o in hobjs if o.endswith("simrt.cpp.o")]
    src = os.path.join(SIM, "selftest_omp.cpp")
    d = os.path.join(BUILD, "selftest-" + file_hash([src] + simrt))
    binp = os.path.join(d, "selftest")
    if not os.path.exists(binp):
        for old in glob.glob(os.path.join(BUILD, "selftest-*")):
            shutil.rmtree(old, ignore_errors=True)
        os.makedirs(d, exist_ok=True)
        o = os.path.join(d, "selftest.o")
        r = sh([CXX, "-std=c++17", "-O2", "-g1", "-fopenmp", "-fsanitize=thread"] + NOBUILTIN + ["-I" + SIM, "-c", src, "-o", o])
        if r.returncode == 0:
            tpath = os.path.join(d, "redefine.txt")
            with open(tpath, "w") as f:
                for a, b in REDEFINE_MEM.items():
                    f.write("%s %s\n" % (a, b))
            r = sh(["objcopy", "--redefine-syms=" + tpath, o])
        if r.returncode == 0:
            r = sh([CXX, "-no-pie", "-o", binp, o] + simrt)
        if r.returncode != 0:
            shutil.rmtree(d, ignore_errors=True)
            raise RuntimeError("selftest-build", r.stdout[-3000:])
    r = sh([binp], timeout=600)
    if r.returncode != 0:
        raise RuntimeError("selftest", r.stdout[-3000:])
    return r.stdout.strip().splitlines()[-1]


if __name__ == "__main__":
    fls = sys.argv[1:] or ["tsh-avx2"]
    if "selftest" in fls:
        fls.remove("selftest")
        try:
            print(selftest())
        except RuntimeError as e:
            print("HARNESS-ERROR", *e.args)
            sys.exit(2)
    for f in fls:
        try:
            b, info = build(f)
            print(f, b, "cached" if info.get("cached") else "built in %ss" % info.get("build_s"))
            if info["uninstrumented_external_symbols"]:
                print("  un-instrumented external symbols:", info["uninstrumented_external_symbols"])
            if info["asm_with_memory_effects"]:
                print("  asm with memory effects:", info["asm_with_memory_effects"])
        except RuntimeError as e:
            print("HARNESS-ERROR", *e.args)
            sys.exit(2)
