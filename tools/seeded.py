#!/usr/bin/env python3
"""Seeded-defect bookkeeping.

  tools/seeded.py import <agent-out-dir> <prefix>   copy m1,m2,.. to /verif/seeded/<prefix>-mK/
  tools/seeded.py verify <id>...                    confirm in a scratch worktree (outside /repo and /verif) that the change
                                                    compiles, passes the existing 30 tests, and that its demonstration fails with the
                                                    change and passes without it; result recorded in meta.json["confirmed"]
  tools/seeded.py run <id>... [--checks C03,C12]    apply the patch to /repo (git apply), run the quick checks, undo it straight
                                                    afterwards (git checkout -- . ; new files removed); result in seeded/<id>/result.json
  tools/seeded.py table                             markdown table of all seeded defects and which checks catch them
"""
import json, os, re, shutil, subprocess, sys, time, glob

VERIF = os.path.dirname(os.path.dirname(os.path.abspath(__file__)))
SEEDED = os.path.join(VERIF, "seeded")
REPO = "/repo"
SCRATCH = "/tmp/seeded-verify-wt"


def sh(cmd, cwd=None, timeout=1800, env=None):
    p = subprocess.run(cmd, cwd=cwd, shell=isinstance(cmd, str), stdout=subprocess.PIPE, stderr=subprocess.STDOUT, text=True, timeout=timeout, env=env)
    return p.returncode, p.stdout


def do_import(src, prefix):
    os.makedirs(SEEDED, exist_ok=True)
    for d in sorted(glob.glob(os.path.join(src, "m*"))):
        k = os.path.basename(d)
        dst = os.path.join(SEEDED, "%s-%s" % (prefix, k))
        if os.path.exists(dst):
            print("exists", dst)
            continue
        os.makedirs(dst)
        for f in os.listdir(d):
            if os.path.isfile(os.path.join(d, f)) and os.path.getsize(os.path.join(d, f)) < 2_000_000 and not f.endswith((".o", ".out")) and f not in ("demo",):
                shutil.copy(os.path.join(d, f), dst)
        print("imported", dst)


def demo_build_cmd(demo_path, wt):
    txt = open(demo_path).read()
    m = re.search(r"((?:clang\+\+|g\+\+)[^\n]*)", txt)
    if not m:
        return None
    cmd = m.group(1).strip().split("&&")[0].strip()
    cmd = re.sub(r"/tmp/wt-[A-Za-z0-9]+", wt, cmd)
    cmd = cmd.replace("WT/", wt + "/").replace("$WT", wt).replace("${WT}", wt)
    cmd = re.sub(r"/tmp/out-[A-Za-z0-9]+/m\d+/demo\.cpp", demo_path, cmd)
    cmd = re.sub(r"(?<![\w/.-])demo\.cpp", demo_path, cmd)
    cmd = re.sub(r"-o\s+\S+", "-o " + os.path.join(wt, "_demo_bin"), cmd)
    return cmd


def run_demo(demo_path, wt, meta):
    cmd = demo_build_cmd(demo_path, wt)
    if not cmd:
        return None, "no build command found in demo.cpp"
    rc, out = sh(cmd, cwd=wt, timeout=900)
    if rc != 0:
        return None, "demo build failed: " + out[-1500:]
    env = dict(os.environ)
    env.setdefault("TSAN_OPTIONS", "exitcode=66 halt_on_error=0")
    env.setdefault("ASAN_OPTIONS", "detect_leaks=0")
    try:
        rc, out = sh(["timeout", "600", os.path.join(wt, "_demo_bin")], cwd=wt, timeout=700, env=env)
    except subprocess.TimeoutExpired:
        rc, out = 124, "timeout"
    os.unlink(os.path.join(wt, "_demo_bin"))
    return rc, out[-1500:]


def verify(ids):
    head = sh(["git", "-C", REPO, "rev-parse", "HEAD"])[1].strip()
    for i in ids:
        d = os.path.join(SEEDED, i)
        meta = json.load(open(os.path.join(d, "meta.json")))
        sh(["git", "-C", REPO, "worktree", "remove", "--force", SCRATCH])
        shutil.rmtree(SCRATCH, ignore_errors=True)
        rc, out = sh(["git", "-C", REPO, "worktree", "add", "--detach", SCRATCH, head])
        conf = dict(repo_head=head, at=time.strftime("%Y-%m-%d %H:%M:%S"))
        try:
            demo = os.path.join(d, "demo.cpp")
            rc0, out0 = run_demo(demo, SCRATCH, meta)
            conf["demo_without_change"] = dict(exit=rc0, tail=out0[-400:] if out0 else "")
            rc, out = sh(["git", "apply", os.path.join(d, "patch.diff")], cwd=SCRATCH)
            conf["patch_applies"] = rc == 0
            if rc != 0:
                conf["error"] = out[-500:]
            else:
                rc, out = sh("make testcpu 2>&1 | tail -3 && timeout 900 ./testcpu 2>&1 | tail -4", cwd=SCRATCH, timeout=1800)
                conf["existing_tests_pass_with_change"] = "[  PASSED  ] 30 tests." in out and "FAILED" not in out
                conf["tests_tail"] = out[-300:]
                rc1, out1 = run_demo(demo, SCRATCH, meta)
                conf["demo_with_change"] = dict(exit=rc1, tail=out1[-400:] if out1 else "")
            conf["ok"] = bool(conf.get("patch_applies") and conf.get("existing_tests_pass_with_change") and rc0 == 0 and conf.get("demo_with_change", {}).get("exit") not in (0, None))
        finally:
            sh(["git", "-C", REPO, "worktree", "remove", "--force", SCRATCH])
            shutil.rmtree(SCRATCH, ignore_errors=True)
        meta["confirmed"] = conf
        json.dump(meta, open(os.path.join(d, "meta.json"), "w"), indent=1)
        print(i, "CONFIRMED" if conf["ok"] else "NOT-CONFIRMED", json.dumps({k: v for k, v in conf.items() if k not in ("tests_tail",)})[:600])


def repo_clean():
    rc, out = sh(["git", "-C", REPO, "status", "--porcelain"])
    return [l for l in out.splitlines() if l.strip() and not l.endswith(" testcpu")]


def run_scratch(ids, checks=None):
    """Like run(), but the patch is applied to a scratch worktree and the checks build from it (VERIF_REPO);
    for interim testing while something else needs /repo untouched.  Results are printed, not recorded."""
    wt = "/tmp/seeded-run-wt-%d" % os.getpid()
    head = sh(["git", "-C", REPO, "rev-parse", "HEAD"])[1].strip()
    for i in ids:
        d = os.path.join(SEEDED, i)
        meta = json.load(open(os.path.join(d, "meta.json")))
        props = checks or meta.get("checks_to_run") or [meta["property"]]
        sh(["git", "-C", REPO, "worktree", "remove", "--force", wt])
        shutil.rmtree(wt, ignore_errors=True)
        sh(["git", "-C", REPO, "worktree", "add", "--detach", wt, head])
        try:
            rc, out = sh(["git", "apply", os.path.join(d, "patch.diff")], cwd=wt)
            if rc != 0:
                print(i, "patch does not apply:", out[-300:])
                continue
            env = dict(os.environ, VERIF_REPO=wt)
            rec = {}
            for p in props:
                t0 = time.time()
                rc, out = sh([os.path.join(VERIF, "check"), p, "quick"], cwd=VERIF, timeout=3600, env=env)
                viol = [l for l in out.splitlines() if l.startswith("VIOLATION")]
                detail = [l for l in out.splitlines() if l.startswith("violation:")]
                herr = [l for l in out.splitlines() if l.startswith("HARNESS-ERROR")]
                rec[p] = dict(exit=rc, caught=(rc == 1 and bool(viol)), violations=detail[:4], harness_error=herr[:2], wall_s=round(time.time() - t0, 1), tree="scratch worktree of /repo HEAD + patch (VERIF_REPO)")
                print(i, p, "exit", rc, "CAUGHT" if (rc == 1 and viol) else "missed", (detail[:1] or herr[:1] or [""])[0][:200], "[scratch]", flush=True)
                for k, v in enumerate(viol):
                    path = v.split("replay=")[1].strip()
                    if os.path.exists(path):
                        if k == 0 and p == meta["property"] and os.environ.get("SEEDED_RECORD"):
                            shutil.copy(path, os.path.join(d, "witness-%s.json" % p))
                        os.unlink(path)
            if os.environ.get("SEEDED_RECORD"):
                rp = os.path.join(d, "result.json")
                old = json.load(open(rp)) if os.path.exists(rp) else {}
                old.setdefault("checks", {}).update(rec)
                old["at"] = time.strftime("%Y-%m-%d %H:%M:%S")
                json.dump(old, open(rp, "w"), indent=1)
        finally:
            sh(["git", "-C", REPO, "worktree", "remove", "--force", wt])
            shutil.rmtree(wt, ignore_errors=True)
    # the evidence files were rewritten from the scratch tree: restore the committed ones
    sh(["git", "-C", VERIF, "checkout", "--", "evidence"])


def run_benign(ids, only=None):
    """Behaviour-preserving changes: every check must stay silent (exit 0).  Scratch worktree + VERIF_REPO."""
    wt = "/tmp/seeded-run-wt-%d" % os.getpid()
    head = sh(["git", "-C", REPO, "rev-parse", "HEAD"])[1].strip()
    allp = only or ["C03", "C04", "C05", "C08", "C12", "C17", "C18", "C19"]
    for i in ids:
        d = os.path.join(SEEDED, i)
        sh(["git", "-C", REPO, "worktree", "remove", "--force", wt])
        shutil.rmtree(wt, ignore_errors=True)
        sh(["git", "-C", REPO, "worktree", "add", "--detach", wt, head])
        res = {}
        if only and os.path.exists(os.path.join(d, "result.json")):
            res = json.load(open(os.path.join(d, "result.json"))).get("benign_checks", {})
        try:
            rc, out = sh(["git", "apply", os.path.join(d, "patch.diff")], cwd=wt)
            if rc != 0:
                print(i, "patch does not apply:", out[-300:])
                continue
            env = dict(os.environ, VERIF_REPO=wt)
            for p in allp:
                rc, out = sh([os.path.join(VERIF, "check"), p, "quick"], cwd=VERIF, timeout=3600, env=env)
                detail = [l for l in out.splitlines() if l.startswith("violation:") or l.startswith("HARNESS-ERROR") or l.startswith("unreproducible")]
                for v in [l for l in out.splitlines() if l.startswith("VIOLATION")]:
                    path = v.split("replay=")[1].strip()
                    if os.path.exists(path):
                        shutil.copy(path, os.path.join(d, "false-alarm-%s.json" % p))
                        os.unlink(path)
                res[p] = dict(exit=rc, detail=detail[:3])
                print(i, p, "exit", rc, "silent" if rc == 0 else ("ALARM" if rc == 1 else "HARNESS-ERROR"), (detail[:1] or [""])[0][:220])
        finally:
            sh(["git", "-C", REPO, "worktree", "remove", "--force", wt])
            shutil.rmtree(wt, ignore_errors=True)
        json.dump(dict(at=time.strftime("%Y-%m-%d %H:%M:%S"), benign_checks=res, all_silent=all(r["exit"] == 0 for r in res.values())), open(os.path.join(d, "result.json"), "w"), indent=1)
    sh(["git", "-C", VERIF, "checkout", "--", "evidence"])


def run(ids, checks=None):
    if repo_clean():
        print("refusing: /repo has local changes:", repo_clean())
        sys.exit(2)
    for i in ids:
        d = os.path.join(SEEDED, i)
        meta = json.load(open(os.path.join(d, "meta.json")))
        props = checks or [meta["property"]]
        res = dict(at=time.strftime("%Y-%m-%d %H:%M:%S"), checks={})
        rc, out = sh(["git", "-C", REPO, "apply", os.path.join(d, "patch.diff")])
        if rc != 0:
            print(i, "patch does not apply:", out[-300:])
            continue
        try:
            for p in props:
                t0 = time.time()
                rc, out = sh([os.path.join(VERIF, "check"), p, "quick"], cwd=VERIF, timeout=3600)
                viol = [l for l in out.splitlines() if l.startswith("VIOLATION")]
                detail = [l for l in out.splitlines() if l.startswith("violation:")]
                herr = [l for l in out.splitlines() if l.startswith("HARNESS-ERROR")]
                res["checks"][p] = dict(exit=rc, caught=(rc == 1 and bool(viol)), violations=detail[:4], harness_error=herr[:2], wall_s=round(time.time() - t0, 1))
                # keep one replay file as the witness, drop the rest
                for k, v in enumerate(viol):
                    path = v.split("replay=")[1].strip()
                    if os.path.exists(path):
                        if k == 0 and p == meta["property"]:
                            shutil.copy(path, os.path.join(d, "witness-%s.json" % p))
                        os.unlink(path)
                print(i, p, "exit", rc, "CAUGHT" if res["checks"][p]["caught"] else "missed", (detail[:1] or herr[:1] or [""])[0][:200])
        finally:
            sh(["git", "-C", REPO, "apply", "-R", os.path.join(d, "patch.diff")])
            sh(["git", "-C", REPO, "checkout", "--", "."])
            sh(["git", "-C", REPO, "clean", "-fdq", "src"])
            if repo_clean():
                print("WARNING: /repo not clean after undo:", repo_clean())
        old = {}
        rp = os.path.join(d, "result.json")
        if os.path.exists(rp):
            old = json.load(open(rp))
        old.setdefault("checks", {}).update(res["checks"])
        old["at"] = res["at"]
        json.dump(old, open(rp, "w"), indent=1)
    # evidence files must describe the unchanged tree: the caller re-runs the checks afterwards


def table(update_design=False):
    rows = []
    for d in sorted(glob.glob(os.path.join(SEEDED, "*"))):
        if not os.path.exists(os.path.join(d, "meta.json")):
            continue
        meta = json.load(open(os.path.join(d, "meta.json")))
        if "property" not in meta:
            continue
        res = json.load(open(os.path.join(d, "result.json"))) if os.path.exists(os.path.join(d, "result.json")) else {"checks": {}}
        caught = [p for p, r in res["checks"].items() if r.get("caught")]
        silent = [p for p, r in res["checks"].items() if not r.get("caught")]
        silent = [("**%s MISSED**" % p) if (p == meta.get("property") and not meta.get("thorough_only")) else (p + " (quick; thorough catches)" if p == meta.get("property") else p) for p in silent]
        first = ""
        own = res["checks"].get(meta.get("property"), {})
        if own.get("violations"):
            first = own["violations"][0].replace("violation: ", "").split(" -- ")[0][:90]

        def clean(t, n):
            t = (t or "").replace("|", "/").replace("\n", " ")
            return t[:n] + ("…" if len(t) > n else "")
        rows.append("| %s | %s | %s | %s | %s | %s | %s | %s |" % (os.path.basename(d), meta.get("property"), clean(meta.get("summary"), 170), clean(meta.get("needs"), 150),
                                                             "yes" if meta.get("confirmed", {}).get("ok") else "no", ", ".join(caught) or "-", first or "-", ", ".join(silent) or "-"))
    txt = "| id | written for | change | needs | confirmed | caught by | first finding of its own check | other checks run, silent |\n|---|---|---|---|---|---|---|---|\n" + "\n".join(rows)
    if update_design:
        dp = os.path.join(VERIF, "DESIGN.md")
        s = open(dp).read()
        B, E = "<!-- SEEDED-TABLE-BEGIN -->", "<!-- SEEDED-TABLE-END -->"
        if B in s:
            s = s[:s.index(B) + len(B)] + "\n" + txt + "\n" + s[s.index(E):]
        else:
            s = s.replace("SEEDED_TABLE_PLACEHOLDER", B + "\n" + txt + "\n" + E)
        open(dp, "w").write(s)
        print("DESIGN.md table updated (%d rows)" % len(rows))
    else:
        print(txt)


if __name__ == "__main__":
    a = sys.argv[1:]
    if not a:
        print(__doc__)
        sys.exit(2)
    if a[0] == "import":
        do_import(a[1], a[2])
    elif a[0] == "verify":
        verify(a[1:])
    elif a[0] == "run":
        checks = None
        ids = []
        k = 1
        while k < len(a):
            if a[k] == "--checks":
                checks = a[k + 1].split(",")
                k += 2
            else:
                ids.append(a[k])
                k += 1
        run(ids, checks)
    elif a[0] == "scratch":
        checks = None
        ids = []
        k = 1
        while k < len(a):
            if a[k] == "--checks":
                checks = a[k + 1].split(",")
                k += 2
            else:
                ids.append(a[k])
                k += 1
        run_scratch(ids, checks)
    elif a[0] == "benign":
        if "--checks" in a:
            k = a.index("--checks")
            run_benign(a[1:k] + a[k + 2:], a[k + 1].split(","))
        else:
            run_benign(a[1:])
    elif a[0] == "runall":
        for d in sorted(glob.glob(os.path.join(SEEDED, "*"))):
            if os.path.exists(os.path.join(d, "meta.json")):
                meta = json.load(open(os.path.join(d, "meta.json")))
                if "property" not in meta or meta.get("origin", "").startswith("own sensitivity test of the thorough"):
                    continue  # behaviour-preserving change (see `benign`) / thorough-only own test
                run([os.path.basename(d)], meta.get("checks_to_run") or [meta["property"]])
    elif a[0] == "table":
        table("--update-design" in a)
