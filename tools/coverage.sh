#!/bin/sh
# Diagnostic, not a check: line coverage of /repo/src/*.cpp (and the inline code reached through shim.cpp)
# under the generators of all eight profiles.  Usage: tools/coverage.sh [runs-per-profile]
set -e
cd "$(dirname "$0")/.."
N=${1:-3000}
B=$(python3 build.py cov-avx512 | head -1 | awk '{print $2}')
D=$(dirname "$B")
rm -f "$D"/*.gcda
for p in C03 C04 C05 C08 C12 C17 C18 C19; do
  "$B" --worker --profile $p --seed 7 --start 0 --stride 1 --end "$N" --maxlog 9 --maxlog-tree 6 --max-copy 20000 --avx512 > /dev/null
  "$B" --worker --profile $p --seed 9 --start 0 --stride 1 --end 40 --cold --maxlog 7 --maxlog-tree 5 --max-copy 9000 --avx512 > /dev/null
done
cd "$D"
for f in ntt_goldilocks.cpp poseidon_goldilocks.cpp goldilocks_base_field.cpp shim.cpp; do
  gcov -o . "$f.o" > /dev/null 2>&1 || gcov -o . "$f" > /dev/null 2>&1 || true
done
for g in ntt_goldilocks.cpp.gcov ntt_goldilocks.hpp.gcov poseidon_goldilocks.cpp.gcov goldilocks_base_field.cpp.gcov merklehash_goldilocks.hpp.gcov; do
  [ -f "$g" ] || continue
  exe=$(grep -c '^ *[0-9][0-9]*\*\?:' "$g" || true)
  non=$(grep -c '^ *#####:' "$g" || true)
  echo "$g: executed lines $exe, never executed $non"
  grep -n '^ *#####:' "$g" | cut -c1-140 | head -40
done
